(* Facts shared by the "checker accepts the model" theorems of C03, C11 and C12:
   the boolean cell/position consistency test against ginv, the snapshot codec round trip, the
   parts of a state a checker reads (hdr / sim), and the per-agent relation srel that every
   operation of the grid model preserves (static fields, "has an orientation", "active agents
   keep a position"). *)
From Coq Require Import ZArith List Bool Arith Lia.
From Abm Require Import Base.Sx Grid.Overlap Grid.Grid Grid.Move Grid.Attack Grid.Vis Grid.AttackRun
  Grid.AttackChk Proofs.Grid_proofs Proofs.Move_proofs Proofs.Attack_proofs.
Import ListNotations.
Open Scope Z_scope.

(* ---- small boolean reflections ------------------------------------------------------------------ *)
Lemma nodupn_NoDup l : nodupn l = true <-> NoDup l.
Proof.
  induction l as [|a r IH]; cbn [nodupn].
  - split; [constructor|reflexivity].
  - rewrite andb_true_iff, negb_true_iff, memn_false, IH. split.
    + intros [A B]. constructor; assumption.
    + intros H. inversion H; subst. split; assumption.
Qed.

Lemma nodupb_NoDup l : nodupb l = true <-> NoDup l.
Proof.
  induction l as [|a r IH]; cbn [nodupb].
  - split; [constructor|reflexivity].
  - rewrite andb_true_iff, negb_true_iff, memn_false, IH. split.
    + intros [A B]. constructor; assumption.
    + intros H. inversion H; subst. split; assumption.
Qed.

Lemma same_set_spec l m : same_set l m = true <-> (forall x, In x l <-> In x m).
Proof.
  unfold same_set. rewrite andb_true_iff, !forallb_forall. split.
  - intros [A B] x. split; intros H; apply memn_In; [apply A|apply B]; exact H.
  - intros H. split; intros x Hx; apply memn_In, H, Hx.
Qed.

Lemma at_cell_In ags : forall k q j,
  In j (at_cell ags k q) <->
  (k <= j)%nat /\ exists b, nth_error ags (j - k) = Some b /\ a_active b = true /\ a_pos b = Some q.
Proof.
  induction ags as [|a r IH]; intros k q j; cbn [at_cell].
  - split; [intros []|]. intros (_ & b & Hb & _). destruct (j - k)%nat; discriminate.
  - rewrite in_app_iff, IH. split.
    + intros [H|(Hle & b & Hb & Hact & Hpos)].
      * destruct (a_active a && pos_eqb (a_pos a) q) eqn:E; [|destruct H].
        destruct H as [<-|[]]. apply andb_true_iff in E as [E1 E2]. apply pos_eqb_eq in E2.
        split; [lia|]. exists a. rewrite Nat.sub_diag. auto.
      * split; [lia|]. exists b. replace (j - k)%nat with (S (j - S k)) by lia. auto.
    + intros (Hle & b & Hb & Hact & Hpos).
      destruct (Nat.eq_dec j k) as [->|Nk].
      * left. rewrite Nat.sub_diag in Hb. cbn in Hb. injection Hb as ->.
        rewrite Hact. apply pos_eqb_eq in Hpos. rewrite Hpos. cbn. left. reflexivity.
      * right. split; [lia|]. exists b.
        replace (j - k)%nat with (S (j - S k)) in Hb by lia. auto.
Qed.

Lemma at_cell_agent s q j :
  In j (at_cell (g_agents s) O q) <->
  exists b, agent s j = Some b /\ a_active b = true /\ a_pos b = Some q.
Proof.
  rewrite at_cell_In, Nat.sub_0_r. unfold agent. split; [intros [_ H]; exact H|intros H; split; [lia|exact H]].
Qed.

Lemma inside_all_cells s p : In p (all_cells s) <-> inside s p = true.
Proof.
  unfold all_cells, inside. rewrite in_flat_map, !andb_true_iff, !Z.leb_le, !Z.ltb_lt. split.
  - intros (r & Hr & Hp). apply in_map_iff in Hp as (c & <- & Hc).
    apply zrange_In in Hr, Hc. cbn [fst snd]. lia.
  - intros (((A & B) & C) & D). exists (fst p). split; [apply zrange_In; lia|].
    apply in_map_iff. exists (snd p). split; [destruct p; reflexivity|apply zrange_In; lia].
Qed.

(* ---- cells_consistent against the invariant ----------------------------------------------------- *)
Theorem ginv_cells_consistent s : ginv s -> cells_consistent s = true.
Proof.
  intros [H1 H2 H3 H4 H5 H6]. unfold cells_consistent. apply forallb_forall. intros p _.
  apply andb_true_iff. split; [apply nodupn_NoDup, H3|].
  apply same_set_spec. intros x. rewrite at_cell_agent. split.
  - intros Hx. apply H2, Hx.
  - intros (b & Hb & Hact & Hpos). apply (H4 x b p ltac:(discriminate) Hb Hact Hpos).
Qed.

Theorem cells_consistent_sound s : cells_consistent s = true ->
  forall p, inside s p = true ->
    NoDup (cell_get (g_cells s) p) /\
    forall j, In j (cell_get (g_cells s) p) <->
              exists b, agent s j = Some b /\ a_active b = true /\ a_pos b = Some p.
Proof.
  unfold cells_consistent. rewrite forallb_forall. intros H p Hp.
  apply inside_all_cells in Hp. apply H in Hp. apply andb_true_iff in Hp as [A B].
  split; [apply nodupn_NoDup, A|]. intros j. rewrite <- at_cell_agent.
  apply (proj1 (same_set_spec _ _) B).
Qed.

(* ---- what a checker reads of a state ------------------------------------------------------------- *)
Definition hdr (s1 s2 : gstate) : Prop :=
  g_rows s1 = g_rows s2 /\ g_cols s1 = g_cols s2 /\ g_ov s1 = g_ov s2 /\ g_agents s1 = g_agents s2.

(* s1 and s2 agree on everything but the representation of the cell dictionaries, which agree
   on every cell of the grid *)
Definition sim (s1 s2 : gstate) : Prop :=
  hdr s1 s2 /\ forall p, In p (all_cells s2) -> cell_get (g_cells s1) p = cell_get (g_cells s2) p.

Lemma hdr_refl s : hdr s s.
Proof. unfold hdr. auto. Qed.

Lemma sim_refl s : sim s s.
Proof. split; [apply hdr_refl|auto]. Qed.

Lemma all_cells_hdr s1 s2 : hdr s1 s2 -> all_cells s1 = all_cells s2.
Proof. intros (A & B & _). unfold all_cells. rewrite A, B. reflexivity. Qed.

Lemma forallb_ext_in {X} (f g : X -> bool) l :
  (forall x, In x l -> f x = g x) -> forallb f l = forallb g l.
Proof.
  induction l as [|x l IH]; intros H; cbn; [reflexivity|].
  rewrite (H x (or_introl eq_refl)), IH; [reflexivity|]. intros y Hy. apply H. right. exact Hy.
Qed.

Lemma cells_consistent_sim s1 s2 : sim s1 s2 -> cells_consistent s1 = cells_consistent s2.
Proof.
  intros [Hh Hc]. unfold cells_consistent. rewrite (all_cells_hdr _ _ Hh).
  destruct Hh as (_ & _ & _ & Ea). rewrite Ea.
  apply forallb_ext_in. intros p Hp. rewrite (Hc p Hp). reflexivity.
Qed.

Lemma can_move_hdr s1 s2 i d : hdr s1 s2 -> can_move s1 i d = can_move s2 i d.
Proof.
  destruct s1, s2. unfold hdr. cbn. intros (-> & -> & -> & ->). reflexivity.
Qed.

Lemma placed_hdr s1 s2 i : hdr s1 s2 -> placed s1 i = placed s2 i.
Proof.
  destruct s1, s2. unfold hdr. cbn. intros (-> & -> & -> & ->). reflexivity.
Qed.

Lemma moved_hdr s1 s2 i d o : hdr s1 s2 -> moved s1 i d o = moved s2 i d o.
Proof.
  destruct s1, s2. unfold hdr. cbn. intros (-> & -> & -> & ->). reflexivity.
Qed.

Lemma agent_hdr s1 s2 i : hdr s1 s2 -> agent s1 i = agent s2 i.
Proof. intros (_ & _ & _ & E). unfold agent. rewrite E. reflexivity. Qed.

(* ---- the snapshot codec --------------------------------------------------------------------------- *)
Lemma all_some_map_inv {X Y} (enc : X -> Y) (dec : Y -> option X) l :
  (forall x, dec (enc x) = Some x) -> all_some (map dec (map enc l)) = Some l.
Proof.
  intros H. induction l as [|x l IH]; cbn; [reflexivity|]. rewrite H, IH. reflexivity.
Qed.

Lemma sxB_ofB b : sxB (ofB b) = Some b.
Proof. destruct b; reflexivity. Qed.

Lemma sxOptZ_ofOptZ o : sxOptZ (ofOptZ o) = Some o.
Proof. destruct o; reflexivity. Qed.

Lemma dec_enc_optcell p : dec_optcell (enc_optcell p) = Some p.
Proof. destruct p as [[r c]|]; reflexivity. Qed.

Lemma dec_enc_arec a : dec_arec (enc_arec a) = Some a.
Proof.
  unfold enc_arec. cbn [dec_arec].
  rewrite dec_enc_optcell, !sxB_ofB, !sxOptZ_ofOptZ. destruct a; reflexivity.
Qed.

Lemma sxNat_ofNat n : sxNat (ofNat n) = Some n.
Proof.
  unfold sxNat, ofNat. destruct (Z.of_nat n <? 0) eqn:E; [apply Z.ltb_lt in E; lia|].
  rewrite Nat2Z.id. reflexivity.
Qed.

Lemma sxNats_ofNats l : sxNats (ofNats l) = Some l.
Proof. unfold sxNats, ofNats. apply all_some_map_inv, sxNat_ofNat. Qed.

Lemma zip_cells_get (f : cell -> list nat) ps : forall p, In p ps ->
  cell_get (zip_cells ps (map f ps)) p = f p.
Proof.
  induction ps as [|q ps IH]; intros p Hp; [destruct Hp|].
  cbn [map zip_cells cell_get]. destruct (cell_eqb p q) eqn:E.
  - apply cell_eqb_eq in E. subst. reflexivity.
  - apply IH. destruct Hp as [->|Hp]; [rewrite cell_eqb_refl in E; discriminate|exact Hp].
Qed.

(* the snapshot of s, read back relative to the dimensions of s0, is s up to the representation
   of the cell dictionaries *)
Theorem dec_enc_snapshot s0 s :
  g_rows s = g_rows s0 -> g_cols s = g_cols s0 -> g_ov s = g_ov s0 ->
  length (g_agents s) = length (g_agents s0) ->
  exists s', dec_snapshot s0 (enc_snapshot s) = Some s' /\ sim s' s.
Proof.
  intros Er Ec Eo El. unfold enc_snapshot, enc_cells. cbn [dec_snapshot].
  rewrite (all_some_map_inv enc_arec dec_arec _ dec_enc_arec).
  assert (Ecells : all_cells s = all_cells s0) by (unfold all_cells; rewrite Er, Ec; reflexivity).
  rewrite <- (map_map (fun p => cell_get (g_cells s) p) ofNats).
  rewrite (all_some_map_inv ofNats sxNats _ sxNats_ofNats).
  rewrite map_length, Ecells, El, !Nat.eqb_refl. cbn [andb].
  eexists. split; [reflexivity|]. split.
  - unfold hdr. cbn. auto.
  - intros p Hp. cbn [g_cells]. rewrite <- Ecells. apply zip_cells_get. exact Hp.
Qed.

(* ---- what every operation preserves of every agent ----------------------------------------------- *)
Definition arel (a a' : arec) : Prop :=
  a_enc a' = a_enc a /\ a_blocking a' = a_blocking a /\
  (a_orient a = None <-> a_orient a' = None) /\ (a_ammo a = None <-> a_ammo a' = None) /\
  (a_active a' = true -> a_active a = true) /\ (a_pos a <> None -> a_pos a' <> None).

Definition srel (s s' : gstate) : Prop :=
  g_rows s' = g_rows s /\ g_cols s' = g_cols s /\ g_ov s' = g_ov s /\
  length (g_agents s') = length (g_agents s) /\
  forall j a', agent s' j = Some a' -> exists a, agent s j = Some a /\ arel a a'.

Lemma arel_refl a : arel a a.
Proof. unfold arel. tauto. Qed.

Lemma arel_trans a b c : arel a b -> arel b c -> arel a c.
Proof. unfold arel. intros (A1 & A2 & A3 & A4 & A5 & A6) (B1 & B2 & B3 & B4 & B5 & B6).
  split; [congruence|]. split; [congruence|]. tauto. Qed.

Lemma srel_refl s : srel s s.
Proof.
  unfold srel. split; [reflexivity|]. split; [reflexivity|]. split; [reflexivity|].
  split; [reflexivity|]. intros j a' H. exists a'. split; [exact H|apply arel_refl].
Qed.

Lemma srel_trans s1 s2 s3 : srel s1 s2 -> srel s2 s3 -> srel s1 s3.
Proof.
  intros (A1 & A2 & A3 & A4 & A5) (B1 & B2 & B3 & B4 & B5).
  split; [congruence|]. split; [congruence|]. split; [congruence|]. split; [congruence|].
  intros j c Hc. destruct (B5 j c Hc) as (b & Hb & R2). destruct (A5 j b Hb) as (a & Ha & R1).
  exists a. split; [exact Ha|]. apply arel_trans with b; assumption.
Qed.

Lemma srel_set_cells s cs : srel s (set_cells s cs).
Proof.
  unfold srel. cbn [set_cells g_rows g_cols g_ov g_agents].
  split; [reflexivity|]. split; [reflexivity|]. split; [reflexivity|]. split; [reflexivity|].
  intros j a' H. exists a'. split; [exact H|apply arel_refl].
Qed.

Lemma srel_set_agent s i a a' : agent s i = Some a -> arel a a' -> srel s (set_agent s i a').
Proof.
  intros Ha R. unfold srel. cbn [set_agent g_rows g_cols g_ov g_agents].
  split; [reflexivity|]. split; [reflexivity|]. split; [reflexivity|].
  split; [apply upd_nth_length|].
  intros j c Hc. destruct (Nat.eq_dec j i) as [->|N].
  - rewrite (agent_set_agent_same _ _ _ _ Ha) in Hc. injection Hc as <-. exists a. auto.
  - rewrite agent_set_agent_other in Hc by exact N. exists c. split; [exact Hc|apply arel_refl].
Qed.

Lemma srel_place s i p : srel s (snd (place s i p)).
Proof.
  unfold place. destruct (agent s i) as [a|] eqn:Ha; [|apply srel_refl].
  destruct (query s i p); [|apply srel_refl]. cbn [snd].
  apply srel_trans with (set_cells s (cell_set (g_cells s) p (dict_add (cell_get (g_cells s) p) i))).
  - apply srel_set_cells.
  - apply srel_set_agent with a; [exact Ha|]. unfold arel. cbn. repeat split; auto; try tauto.
    intros _. discriminate.
Qed.

Lemma srel_remove s i p s1 : remove s i p = Some s1 -> srel s s1.
Proof.
  unfold remove. destruct (memn i _); [|discriminate]. intros E. injection E as <-.
  apply srel_set_cells.
Qed.

Lemma srel_move_by s i d : match move_by s i d with MOk _ s' => srel s s' | _ => True end.
Proof.
  unfold move_by. destruct (agent s i) as [a|]; [|exact I]. destruct (a_pos a) as [from|]; [|exact I].
  destruct (inside s _); [|apply srel_refl]. destruct (cell_eqb _ from); [apply srel_refl|].
  destruct (query s i _); [|apply srel_refl].
  destruct (remove s i from) as [s1|] eqn:R; [|exact I].
  apply srel_trans with s1; [apply (srel_remove _ _ _ _ R)|apply srel_place].
Qed.

Lemma srel_move_cross s i ca : match move_cross s i ca with MOk _ s' => srel s s' | _ => True end.
Proof. unfold move_cross. destruct (grid_action ca); [apply srel_move_by|exact I]. Qed.

Lemma srel_move_drift s i ca : match move_drift s i ca with MOk _ s' => srel s s' | _ => True end.
Proof.
  unfold move_drift. destruct (agent s i) as [a0|] eqn:Ha0; [|exact I].
  destruct (a_orient a0) as [o0|] eqn:Ho; [|exact I].
  destruct (ca =? 0); [apply srel_move_cross|].
  pose proof (srel_move_cross s i ca) as H1.
  destruct (move_cross s i ca) as [[|] s1| | |]; try exact I.
  - destruct (agent s1 i) as [a1|] eqn:Ha1; [|exact I].
    apply srel_trans with s1; [exact H1|]. apply srel_set_agent with a1; [exact Ha1|].
    destruct H1 as (_ & _ & _ & _ & H1). destruct (H1 i a1 Ha1) as (a & Ha & R).
    assert (a = a0) by congruence. subst a. destruct R as (_ & _ & R & _).
    assert (Ho1 : a_orient a1 <> None) by (intros E; apply R in E; congruence).
    unfold arel, with_orient. cbn [a_enc a_blocking a_orient a_ammo a_active a_pos].
    split; [reflexivity|]. split; [reflexivity|]. split; [|tauto].
    split; [intros E; contradiction|discriminate].
  - pose proof (srel_move_cross s1 i o0) as H2.
    destruct (move_cross s1 i o0); try exact I. apply srel_trans with s1; assumption.
Qed.

Theorem srel_do_mop s o : srel s (state_after s (do_mop s o)).
Proof.
  destruct o as [i d|i ca|i ca]; cbn [do_mop].
  - pose proof (srel_move_by s i d) as H. unfold move_free.
    destruct (move_by s i d); cbn [state_after]; auto using srel_refl.
  - pose proof (srel_move_cross s i ca) as H.
    destruct (move_cross s i ca); cbn [state_after]; auto using srel_refl.
  - pose proof (srel_move_drift s i ca) as H.
    destruct (move_drift s i ca); cbn [state_after]; auto using srel_refl.
Qed.

Lemma arel_with_health b h : a_active b = true -> arel b (with_health b h).
Proof. intros H. unfold arel, with_health. cbn [a_enc a_blocking a_orient a_ammo a_active a_pos]. tauto. Qed.

Lemma arel_with_ammo a m m' : a_ammo a = Some m -> arel a (with_ammo a (Some m')).
Proof.
  intros H. unfold arel, with_ammo. cbn [a_enc a_blocking a_orient a_ammo a_active a_pos].
  rewrite H. repeat split; auto; discriminate.
Qed.

Lemma srel_hit s st v : srel s (hit s st v).
Proof.
  unfold hit. destruct (agent s v) as [b|] eqn:Hb; [|apply srel_refl].
  destruct (a_active b) eqn:Hact; cbn [negb]; [|apply srel_refl].
  set (b' := with_health b (a_health b - st)).
  assert (S1 : srel s (set_agent s v b')) by (apply srel_set_agent with b; [exact Hb|apply arel_with_health, Hact]).
  destruct (a_active b'); [exact S1|]. destruct (a_pos b') as [q|]; [|exact S1].
  destruct (remove (set_agent s v b') v q) as [s2|] eqn:R; [|exact S1].
  apply srel_trans with (set_agent s v b'); [exact S1|apply (srel_remove _ _ _ _ R)].
Qed.

Lemma srel_apply_hits hits : forall s st, srel s (apply_hits s st hits).
Proof.
  unfold apply_hits. induction hits as [|v r IH]; intros s st; cbn [fold_left]; [apply srel_refl|].
  apply srel_trans with (hit s st v); [apply srel_hit|apply IH].
Qed.

Theorem srel_process_attack vis s cf att o act :
  match process_attack vis s cf att o act with POk _ _ s' _ => srel s s' | _ => True end.
Proof.
  unfold process_attack. destruct (agent s att) as [a|] eqn:Ha; [|exact I].
  destruct (a_pos a); [|exact I].
  destruct (determine vis s cf att c o act) as [[status hits] o1|]; [|exact I].
  destruct (a_ammo a) as [am|] eqn:Ham.
  - destruct (am <? Z.of_nat (length hits)).
    + destruct (o_choice o1) as [|ch cs]; [exact I|].
      destruct ((Z.of_nat (length ch) =? am) && submultiset ch hits); [|exact I].
      eapply srel_trans; [|apply srel_apply_hits].
      apply srel_set_agent with a; [exact Ha|apply arel_with_ammo with am, Ham].
    + eapply srel_trans; [|apply srel_apply_hits].
      apply srel_set_agent with a; [exact Ha|apply arel_with_ammo with am, Ham].
  - apply srel_apply_hits.
Qed.
