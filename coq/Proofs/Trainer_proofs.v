(* Proofs about Ctl/Trainer.v (C16), for an arbitrary simulation and arbitrary policies. *)
From Coq Require Import ZArith List Bool Arith Lia.
From Abm Require Import Base.Sx Ctl.Managers Ctl.ScriptSim Ctl.MgrCheck Ctl.Adapters Ctl.Trainer
     Proofs.Managers_proofs Proofs.Adapters_proofs.
Import ListNotations.
Close Scope Z_scope.

(* ------------------------------------------------------------------ the record dicts *)
Lemma rec_get_append {X} a b (x : X) r :
  rec_get a (rec_append b x r) = if Nat.eqb a b then rec_get a r ++ [x] else rec_get a r.
Proof.
  induction r as [|[c l] r IH]; simpl.
  - destruct (Nat.eqb a b); reflexivity.
  - destruct (Nat.eqb b c) eqn:Ebc; simpl.
    + apply Nat.eqb_eq in Ebc. subst c. destruct (Nat.eqb a b); reflexivity.
    + destruct (Nat.eqb a c) eqn:Eac.
      * apply Nat.eqb_eq in Eac. subst c. rewrite Nat.eqb_sym, Ebc. reflexivity.
      * exact IH.
Qed.

Lemma occ_cons {X} a (kv : nat * X) d :
  occ a (kv :: d) = if Nat.eqb (fst kv) a then snd kv :: occ a d else occ a d.
Proof. unfold occ. simpl. destruct (Nat.eqb (fst kv) a); reflexivity. Qed.

Lemma rec_get_all {X} a (d : list (nat * X)) : forall r,
  rec_get a (rec_all d r) = rec_get a r ++ occ a d.
Proof.
  induction d as [|kv d IH]; intros r.
  - unfold occ. simpl. rewrite app_nil_r. reflexivity.
  - unfold rec_all in *. simpl. rewrite IH, rec_get_append, occ_cons, Nat.eqb_sym.
    destruct (Nat.eqb (fst kv) a); [rewrite <- app_assoc|]; reflexivity.
Qed.

Lemma rec_append_keys {X} a (x : X) r b :
  In b (map fst (rec_append a x r)) <-> b = a \/ In b (map fst r).
Proof.
  induction r as [|[c l] r IH]; simpl.
  - intuition.
  - destruct (Nat.eqb a c) eqn:E; simpl.
    + apply Nat.eqb_eq in E. subst c. intuition.
    + rewrite IH. intuition.
Qed.

Lemma rec_append_nodup {X} a (x : X) r :
  NoDup (map fst r) -> NoDup (map fst (rec_append a x r)).
Proof.
  induction r as [|[c l] r IH]; simpl; intros ND.
  - repeat constructor. intros [].
  - inversion ND as [|? ? Hn ND']; subst. destruct (Nat.eqb a c) eqn:E; simpl.
    + constructor; assumption.
    + constructor; [|apply IH, ND']. rewrite rec_append_keys. intros [C|C]; [|contradiction].
      subst. rewrite Nat.eqb_refl in E. discriminate.
Qed.

Lemma rec_append_nonempty {X} a (x : X) r :
  Forall (fun al => snd al <> []) r -> Forall (fun al => snd al <> []) (rec_append a x r).
Proof.
  induction r as [|[c l] r IH]; simpl; intros H.
  - repeat constructor. discriminate.
  - inversion H as [|? ? H1 H2]; subst. destruct (Nat.eqb a c); constructor; auto.
    simpl. destruct l; discriminate.
Qed.

(* what the record of a dict sequence looks like: keys are keys that occurred, no duplicates,
   no empty lists *)
Definition rec_wf {X} (bound : nat -> Prop) (r : list (nat * list X)) : Prop :=
  NoDup (map fst r) /\ Forall (fun al => snd al <> []) r /\ forall b, In b (map fst r) -> bound b.

Lemma rec_all_wf {X} bound (d : list (nat * X)) : forall r,
  rec_wf bound r -> (forall b, In b (map fst d) -> bound b) -> rec_wf bound (rec_all d r).
Proof.
  induction d as [|kv d IH]; intros r W Hd; [exact W|].
  unfold rec_all in *. simpl. apply IH.
  - destruct W as (W1 & W2 & W3). split; [apply rec_append_nodup, W1|].
    split; [apply rec_append_nonempty, W2|].
    intros b Hb. apply rec_append_keys in Hb as [->|Hb]; [apply Hd; left; reflexivity|apply W3, Hb].
  - intros b Hb. apply Hd. right. exact Hb.
Qed.

Lemma occ_length_keys {X Y} a (d : list (nat * X)) (e : list (nat * Y)) :
  map fst d = map fst e -> length (occ a d) = length (occ a e).
Proof.
  revert e. induction d as [|kv d IH]; intros [|kw e] H; try discriminate; [reflexivity|].
  simpl in H. injection H as H1 H2. rewrite !occ_cons, H1.
  destruct (Nat.eqb (fst kw) a); simpl; rewrite (IH e H2); reflexivity.
Qed.

Lemma occ_notin {X} a (d : list (nat * X)) : ~ In a (map fst d) -> occ a d = [].
Proof.
  induction d as [|kv d IH]; intros H; [reflexivity|]. rewrite occ_cons.
  destruct (Nat.eqb (fst kv) a) eqn:E.
  - apply Nat.eqb_eq in E. exfalso. apply H. left. exact E.
  - apply IH. intros C. apply H. right. exact C.
Qed.

Lemma occ_nodup_in {X} a (d : list (nat * X)) :
  NoDup (map fst d) -> In a (map fst d) -> exists x, occ a d = [x] /\ In (a, x) d.
Proof.
  induction d as [|[b y] d IH]; intros ND H; [contradiction|]. rewrite occ_cons. cbn [fst snd].
  inversion ND as [|? ? Hn ND']; subst. destruct (Nat.eqb b a) eqn:E.
  - apply Nat.eqb_eq in E. subst b. exists y. rewrite (occ_notin a d Hn).
    split; [reflexivity|left; reflexivity].
  - destruct H as [H|H]; [cbn in H; subst; rewrite Nat.eqb_refl in E; discriminate|].
    destruct (IH ND' H) as (x & E1 & E2). exists x. split; [exact E1|right; exact E2].
Qed.

(* ------------------------------------------------------------------ del obs[agent] for done agents *)
Lemma flagged_In a dn : flagged a dn = true <-> In (a, true) dn.
Proof.
  unfold flagged. rewrite existsb_exists. split.
  - intros ([b f] & Hin & H). cbn in H. apply andb_true_iff in H as [H1 H2].
    apply Nat.eqb_eq in H1. subst. exact Hin.
  - intros H. exists (a, true). split; [exact H|]. cbn. rewrite Nat.eqb_refl. reflexivity.
Qed.

Lemma filter_twice {X} (f g : X -> bool) l :
  filter f (filter g l) = filter (fun x => g x && f x) l.
Proof.
  induction l as [|x l IH]; [reflexivity|]. simpl. destruct (g x); simpl; [|exact IH].
  destruct (f x); [f_equal|]; exact IH.
Qed.

Lemma flagged_cons a kb dn :
  flagged a (kb :: dn) = Nat.eqb (fst kb) a && snd kb || flagged a dn.
Proof. reflexivity. Qed.

Lemma del_done_filter {Obs} dn : forall (obs c : list (nat * Obs)),
  del_done dn obs = Some c -> c = filter (fun kv => negb (flagged (fst kv) dn)) obs.
Proof.
  induction dn as [|[a b] dn IH]; intros obs c H; simpl in H.
  - injection H as <-. symmetry. clear. induction obs as [|kv obs IH]; [reflexivity|].
    simpl. f_equal. exact IH.
  - destruct b.
    + destruct (memb a (map fst obs)); [|discriminate]. apply IH in H. subst c.
      rewrite filter_twice. apply filter_ext. intros kv. rewrite flagged_cons. cbn [fst snd].
      rewrite andb_true_r, negb_orb, (Nat.eqb_sym a). reflexivity.
    + apply IH in H. subst c. apply filter_ext. intros kv. unfold flagged. simpl.
      rewrite andb_false_r. reflexivity.
Qed.

Lemma del_done_total {Obs} dn : forall (obs : list (nat * Obs)),
  (forall a, In (a, true) dn -> In a (map fst obs)) -> NoDup (map fst dn) ->
  exists c, del_done dn obs = Some c.
Proof.
  induction dn as [|[a b] dn IH]; intros obs H ND; simpl; [eexists; reflexivity|].
  inversion ND as [|? ? Hn ND']; subst. destruct b.
  - assert (Hm : memb a (map fst obs) = true) by (apply memb_In, H; left; reflexivity).
    rewrite Hm. apply IH; [|exact ND']. intros a' Ha'.
    assert (Hne : a' <> a).
    { intros ->. apply Hn. change a with (fst (a, true)). apply in_map, Ha'. }
    assert (Hin : In a' (map fst obs)) by (apply H; right; exact Ha').
    apply in_map_iff in Hin as ([a2 x] & E & Hx). cbn in E. subst a2.
    apply in_map_iff. exists (a', x). split; [reflexivity|]. apply filter_In. split; [exact Hx|].
    cbn. apply negb_true_iff, Nat.eqb_neq, Hne.
  - apply IH; [|exact ND']. intros a' Ha'. apply H. right. exact Ha'.
Qed.

Definition outs_of' {Obs Info Act} (its : list (iter Obs Info Act)) : list (out Obs Info) :=
  flat_map (fun it => match it_resp it with ROut o => [o] | _ => [] end) its.

Definition asked {Obs Info Act} (it : iter Obs Info Act) : list (nat * Obs) :=
  map (fun q => (q_agent q, q_obs q)) (it_q it).

Definition answers {Obs Info Act} (it : iter Obs Info Act) : list (nat * Act) :=
  map (fun q => (q_agent q, q_act q)) (it_q it).

(* C16 clause 1: in every iteration the policies are asked exactly for the agents of the latest
   output that are not flagged done there, each with its own latest observation *)
Fixpoint queries_spec {Obs Info Act} (lobs : list (nat * Obs)) (ldone : list (nat * bool))
         (its : list (iter Obs Info Act)) : Prop :=
  match its with
  | [] => True
  | it :: its' =>
      asked it = filter (fun kv => negb (flagged (fst kv) ldone)) lobs /\
      match it_resp it with
      | ROut o => queries_spec (o_obs o) (o_done o) its'
      | _ => its' = []
      end
  end.

Section T.
  Context {St Obs Info Act PS : Type}.
  Variable Sim : simulation St Obs Info Act.
  Variable pmap : nat -> nat.
  Variable pol_act : PS -> nat -> Obs -> Act * PS.
  Variable pol_reset : PS -> PS.
  Variable shuf : nat -> list (nat * Act) -> list (nat * Act).
  Notation compute_actions := (compute_actions pmap pol_act).
  Notation ep_loop := (ep_loop Sim pmap pol_act shuf).
  Notation generate_episode := (generate_episode Sim pmap pol_act pol_reset shuf).

  Lemma compute_actions_spec c : forall ps acts qs ps',
    compute_actions ps c = (acts, qs, ps') ->
    map (fun q => (q_agent q, q_obs q)) qs = c /\
    acts = map (fun q => (q_agent q, q_act q)) qs /\
    Forall (fun q => q_pid q = pmap (q_agent q)) qs.
  Proof.
    induction c as [|[a ob] c IH]; intros ps acts qs ps' H; simpl in H.
    - injection H as <- <- <-. repeat split. constructor.
    - destruct (pol_act ps (pmap a) ob) as [x ps1].
      destruct (compute_actions ps1 c) as [[acts1 qs1] ps2] eqn:E.
      injection H as <- <- <-. destruct (IH _ _ _ _ E) as (I1 & I2 & I3).
      cbn. rewrite I1, <- I2. repeat split. constructor; [reflexivity|exact I3].
  Qed.

  Definition sends_ok (it : iter Obs Info Act) : Prop :=
    it_sent it = answers it /\ Forall (fun q => q_pid q = pmap (q_agent q)) (it_q it).

  (* the records grow by exactly what occurred *)
  Definition grown (a : nat) (ep ep' : episode Obs Act) (its : list (iter Obs Info Act)) : Prop :=
    rec_get a (ep_obs ep') = rec_get a (ep_obs ep) ++ flat_map (fun o => occ a (o_obs o)) (outs_of' its) /\
    rec_get a (ep_act ep') = rec_get a (ep_act ep) ++ flat_map (fun it => occ a (it_sent it)) its /\
    rec_get a (ep_rew ep') = rec_get a (ep_rew ep) ++ flat_map (fun o => occ a (o_rew o)) (outs_of' its) /\
    rec_get a (ep_done ep') = rec_get a (ep_done ep) ++ flat_map (fun o => occ a (o_done o)) (outs_of' its).

  Definition last_all (its : list (iter Obs Info Act)) : Prop :=
    exists its0 it o, its = its0 ++ [it] /\ it_resp it = ROut o /\ o_all o = true.

  Lemma ep_loop_struct k h : forall j m ps c ep its st ep' m' ps',
    ep_loop h j k m ps c ep = (its, st, ep', m', ps') ->
    (forall lobs ldone, c = filter (fun kv => negb (flagged (fst kv) ldone)) lobs ->
                        queries_spec lobs ldone its) /\
    Forall sends_ok its /\
    length its <= h /\
    Forall (fun it => exists o, it_resp it = ROut o /\ o_all o = false) (removelast its) /\
    (st = EOk -> length its = h \/ last_all its) /\
    (st = EOk -> (forall a, grown a ep ep' its) /\
                 ep_all ep' = ep_all ep ++ map o_all (outs_of' its) /\
                 Forall (fun it => exists o, it_resp it = ROut o) its).
  Proof.
    induction h as [|h IH]; intros j m ps c ep its st ep' m' ps' H; simpl in H.
    - injection H as <- <- <- <- <-. split; [intros; exact I|]. split; [constructor|].
      split; [apply le_n|]. split; [constructor|]. split; [left; reflexivity|].
      intros _. split; [|split; [cbn; rewrite app_nil_r; reflexivity|constructor]].
      intros a. unfold grown. cbn. rewrite !app_nil_r. repeat split.
    - destruct (compute_actions ps c) as [[acts qs] ps1] eqn:Eca.
      destruct (compute_actions_spec _ _ _ _ _ Eca) as (Q1 & Q2 & Q3).
      destruct (do_call Sim k m (CStep acts (shuf j acts))) as [r m1] eqn:Ecall.
      set (it := {| it_q := qs; it_sent := acts; it_resp := r |}) in *.
      assert (Hsend : sends_ok it) by (split; [exact Q2|exact Q3]).
      assert (Hask : forall lobs ldone, c = filter (fun kv => negb (flagged (fst kv) ldone)) lobs ->
                                        asked it = filter (fun kv => negb (flagged (fst kv) ldone)) lobs)
        by (intros lobs ldone <-; exact Q1).
      destruct r as [obs|o| | |].
      + injection H as <- <- <- <- <-.
        split; [intros lobs ldone Hc; split; [apply Hask, Hc|reflexivity]|].
        split; [constructor; [exact Hsend|constructor]|]. split; [cbn; lia|]. split; [constructor|].
        split; discriminate.
      + destruct (o_all o) eqn:Hall.
        * injection H as <- <- <- <- <-.
          split; [intros lobs ldone Hc; split; [apply Hask, Hc|exact I]|].
          split; [constructor; [exact Hsend|constructor]|]. split; [cbn; lia|]. split; [constructor|].
          split; [intros _; right; exists [], it, o; repeat split; exact Hall|].
          intros _. split; [|split].
          -- intros a. unfold grown, store. cbn. rewrite !rec_get_all, !app_nil_r. repeat split.
          -- cbn. reflexivity.
          -- repeat constructor. exists o. reflexivity.
        * destruct (del_done (o_done o) (o_obs o)) as [c'|] eqn:Edel.
          -- destruct (ep_loop h (S j) k m1 ps1 c' (store ep o acts)) as [[[[its1 st1] ep2] m2] ps2] eqn:Eloop.
             injection H as <- <- <- <- <-.
             destruct (IH _ _ _ _ _ _ _ _ _ _ Eloop) as (I1 & I2 & I3 & I4 & I5 & I6).
             split.
             { intros lobs ldone Hc. split; [apply Hask, Hc|]. cbn. apply I1.
               apply del_done_filter, Edel. }
             split; [constructor; [exact Hsend|exact I2]|]. split; [cbn; lia|].
             split.
             { destruct its1 as [|it1 its1']; [constructor|]. cbn [removelast].
               constructor; [exists o; split; [reflexivity|exact Hall]|exact I4]. }
             split.
             { intros Hs. destruct (I5 Hs) as [Hl|(its0 & itl & ol & E1 & E2 & E3)].
               - left. cbn. rewrite Hl. reflexivity.
               - right. exists (it :: its0), itl, ol. rewrite E1. repeat split; assumption. }
             intros Hs. destruct (I6 Hs) as (G & Ga & Gr). split; [|split].
             { intros a. destruct (G a) as (G1 & G2 & G3 & G4). unfold grown. cbn.
               rewrite G1, G2, G3, G4. unfold store. cbn. rewrite !rec_get_all, <- !app_assoc.
               repeat split. }
             { rewrite Ga. unfold store. cbn. rewrite <- app_assoc. reflexivity. }
             { constructor; [exists o; reflexivity|exact Gr]. }
          -- injection H as <- <- <- <- <-.
             split; [intros lobs ldone Hc; split; [apply Hask, Hc|exact I]|].
             split; [constructor; [exact Hsend|constructor]|]. split; [cbn; lia|]. split; [constructor|].
             split; discriminate.
      + injection H as <- <- <- <- <-.
        split; [intros lobs ldone Hc; split; [apply Hask, Hc|reflexivity]|].
        split; [constructor; [exact Hsend|constructor]|]. split; [cbn; lia|]. split; [constructor|].
        split; discriminate.
      + injection H as <- <- <- <- <-.
        split; [intros lobs ldone Hc; split; [apply Hask, Hc|reflexivity]|].
        split; [constructor; [exact Hsend|constructor]|]. split; [cbn; lia|]. split; [constructor|].
        split; discriminate.
      + injection H as <- <- <- <- <-.
        split; [intros lobs ldone Hc; split; [apply Hask, Hc|reflexivity]|].
        split; [constructor; [exact Hsend|constructor]|]. split; [cbn; lia|]. split; [constructor|].
        split; discriminate.
  Qed.
End T.

(* ================================================================== with the managers' guarantees *)
Lemma cnt_in {X} a (d : list (nat * X)) :
  NoDup (map fst d) -> In a (map fst d) -> length (occ a d) = 1.
Proof. intros ND H. destruct (occ_nodup_in a d ND H) as (x & E & _). rewrite E. reflexivity. Qed.

Lemma cnt_out {X} a (d : list (nat * X)) : ~ In a (map fst d) -> length (occ a d) = 0.
Proof. intros H. rewrite (occ_notin a d H). reflexivity. Qed.

Lemma NoDup_map_filter {X} (f : nat * X -> bool) (d : list (nat * X)) :
  NoDup (map fst d) -> NoDup (map fst (filter f d)).
Proof.
  induction d as [|kv d IH]; simpl; intros ND; [constructor|].
  inversion ND as [|? ? Hn ND']; subst. destruct (f kv); simpl; [|apply IH, ND'].
  constructor; [|apply IH, ND']. intros C. apply Hn. apply in_map_iff in C as (x & E & Hx).
  apply filter_In in Hx as [Hx _]. rewrite <- E. apply in_map, Hx.
Qed.

Lemma classic_flag a (dn : list (nat * bool)) : In (a, true) dn \/ ~ In (a, true) dn.
Proof.
  destruct (flagged a dn) eqn:E; [left; apply flagged_In, E|right].
  intros C. apply flagged_In in C. congruence.
Qed.

Lemma removelast_snoc {X} (l : list X) x : removelast (l ++ [x]) = l.
Proof. apply removelast_last. Qed.

Section TM.
  Context {St Obs Info Act PS : Type}.
  Variable Sim : simulation St Obs Info Act.
  Variable pmap : nat -> nat.
  Variable pol_act : PS -> nat -> Obs -> Act * PS.
  Variable pol_reset : PS -> PS.
  Variable shuf : nat -> list (nat * Act) -> list (nat * Act).
  Notation compute_actions := (compute_actions pmap pol_act).
  Notation ep_loop := (ep_loop Sim pmap pol_act shuf).
  Notation generate_episode := (generate_episode Sim pmap pol_act pol_reset shuf).
  Notation agents := (agents Sim).
  Notation order := (order Sim).
  Notation nonlearning := (nonlearning Sim).
  Notation done_stable := (done_stable Sim).
  Notation L := (length order).

  (* the three manager types *)
  Definition tk (k : mgr) : Prop := k = MAll \/ k = MTurn \/ k = MDyn.

  (* what the theorems ask of the simulation, per manager type *)
  Definition sim_ok (k : mgr) : Prop :=
    (k <> MAll -> done_stable) /\ (k = MDyn -> next_ok Sim) /\ (k = MTurn -> order <> []).

  Definition minv (k : mgr) (m : mstate St) : Prop :=
    match k with
    | MAll => incl nonlearning (m_done m)
    | MTurn => incl nonlearning (m_done m) /\ m_ptr m < L /\
               exists a, In a order /\ ~ In a (m_done m)
    | _ => True
    end.

  Lemma existsb_done_false (d : list nat) (acts : list (nat * Act)) :
    (forall a, In a (map fst acts) -> ~ In a d) ->
    existsb (fun kv => memb (fst kv) d) acts = false.
  Proof.
    intros H. destruct (existsb _ acts) eqn:E; [|reflexivity].
    apply existsb_exists in E as (kv & Hkv & Hm). apply memb_In in Hm. exfalso.
    apply (H (fst kv)); [apply in_map, Hkv|exact Hm].
  Qed.

  Lemma mgr_step_ok k m acts sh :
    tk k -> sim_ok k -> minv k m ->
    (forall a, In a (map fst acts) -> ~ In a (m_done m)) -> (k = MTurn -> acts <> []) ->
    exists o m', do_call Sim k m (CStep acts sh) = (ROut o, m') /\ step_post Sim m o m' /\
      (o_all o = false ->
         minv k m' /\
         (forall a, In a (m_done m') <-> In a (m_done m) \/ In (a, true) (o_done o)) /\
         (k = MTurn -> exists a, In (a, false) (o_done o))).
  Proof.
    intros Hk (Hstab & Hnext & Hlearn) Inv Hfresh Hne.
    pose proof (existsb_done_false _ _ Hfresh) as Hex.
    destruct Hk as [-> | [-> | ->]]; cbn [do_call].
    - destruct (all_step_post Sim m acts sh Hex) as (o & m' & E & SP & K & D & Al & P).
      exists o, m'. split; [exact E|]. split; [exact SP|]. intros Hall. split; [|split].
      + cbn in *. intros a Ha. apply (st_mono Sim _ _ _ SP), Inv, Ha.
      + intros a. rewrite D, in_app_iff. apply or_iff_compat_l. rewrite in_map_iff. split.
        * intros ([a' b] & Ea & Hf). apply filter_In in Hf as [Hf Hb]. cbn in Ea, Hb. subst. exact Hf.
        * intros H. exists (a, true). split; [reflexivity|]. apply filter_In. split; [exact H|reflexivity].
      + discriminate.
    - destruct Inv as (Hnl & Hp & Hw).
      assert (HL : L <> 0) by (specialize (Hlearn eq_refl); destruct order; [contradiction|discriminate]).
      assert (St0 : done_stable) by (apply Hstab; discriminate).
      destruct (turn_step_post Sim m acts (Hne eq_refl) Hex HL Hp Hnl Hw) as (o & m' & E & SP & Hcont).
      exists o, m'. split; [exact E|]. split; [exact SP|]. intros Hall.
      destruct (Hcont Hall) as (Hp' & Hai & Hshape).
      assert (Hnl' : incl nonlearning (m_done m')).
      { intros a Ha. apply (st_mono Sim _ _ _ SP), Hnl, Ha. }
      split; [|split].
      + split; [exact Hnl'|]. split; [exact Hp'|]. apply not_all_in_witness; assumption.
      + apply (step_post_done_iff Sim _ _ _ SP St0 Hall).
      + intros _. destruct (Hshape St0) as (front & last & Esh). exists last. rewrite Esh.
        apply in_or_app. right. left. reflexivity.
    - assert (St0 : done_stable) by (apply Hstab; discriminate).
      destruct (dyn_step_post Sim m acts (Hnext eq_refl) Hex) as (o & m' & E & SP).
      exists o, m'. split; [exact E|]. split; [exact SP|]. intros Hall. split; [exact I|].
      split; [apply (step_post_done_iff Sim _ _ _ SP St0 Hall)|discriminate].
  Qed.

  Lemma mgr_reset_ok k m :
    tk k -> sim_ok k ->
    exists obs m', do_call Sim k m CReset = (RObs obs, m') /\ minv k m' /\
      NoDup (map fst obs) /\
      (forall a, In a (map fst obs) -> ~ In a (m_done m') /\ In a agents) /\
      (k = MTurn -> obs <> []) /\
      (k = MAll \/ k = MTurn -> incl (map fst obs) order).
  Proof.
    intros Hk (Hstab & Hnext & Hlearn). destruct Hk as [-> | [-> | ->]]; cbn [do_call].
    - destruct (all_reset_spec Sim m) as (obs & m' & E & K & D & P). exists obs, m'.
      split; [exact E|]. cbn. rewrite D, K. split; [apply incl_refl|].
      split; [apply order_NoDup|]. split.
      + intros a Ha. split; [|apply order_In, Ha]. intros C.
        apply order_spec in Ha. apply nonlearning_spec in C. destruct Ha, C. congruence.
      + split; [discriminate|]. intros _. apply incl_refl.
    - assert (HL : L <> 0) by (specialize (Hlearn eq_refl); destruct order; [contradiction|discriminate]).
      destruct (turn_reset_spec Sim m HL) as (a & ob & m' & E & Ha & D & P).
      exists [(a, ob)], m'. split; [exact E|]. cbn.
      assert (Hn : ~ In a nonlearning).
      { intros C. apply order_spec in Ha. apply nonlearning_spec in C. destruct Ha, C. congruence. }
      rewrite D. split.
      + split; [apply incl_refl|]. split; [exact P|]. exists a. split; assumption.
      + split; [repeat constructor; intros []|]. split.
        * intros x [<-|[]]. split; [exact Hn|apply order_In, Ha].
        * split; [discriminate|]. intros _ x [<-|[]]. exact Ha.
    - destruct (dyn_reset_spec Sim m) as (obs & m' & E & K & D). exists obs, m'.
      split; [exact E|]. cbn. split; [exact I|]. destruct (Hnext eq_refl (sim_reset Sim (m_sim m))) as [ND Hin].
      rewrite K, D. split; [exact ND|]. split.
      + intros a Ha. split; [intros []|apply Hin, Ha].
      + split; [discriminate|]. intros [C|C]; discriminate.
  Qed.

  (* ---- the loop invariant ---- *)
  Definition lo (a : nat) (ep : episode Obs Act) : nat := length (rec_get a (ep_obs ep)).
  Definition la (a : nat) (ep : episode Obs Act) : nat := length (rec_get a (ep_act ep)).

  Definition dones_ok (a : nat) (m : mstate St) (ep : episode Obs Act) : Prop :=
    Forall (eq false) (rec_get a (ep_done ep)) \/
    (In a (m_done m) /\ exists l, rec_get a (ep_done ep) = l ++ [true] /\ Forall (eq false) l).

  Definition ep_wf (ep : episode Obs Act) : Prop :=
    rec_wf (fun b => In b agents) (ep_obs ep) /\ rec_wf (fun b => In b agents) (ep_act ep) /\
    rec_wf (fun b => In b agents) (ep_rew ep) /\ rec_wf (fun b => In b agents) (ep_done ep).

  Record linv (k : mgr) (m : mstate St) (c : list (nat * Obs)) (ep : episode Obs Act) : Prop := {
    li_m : minv k m;
    li_fresh : forall a, In a (map fst c) -> ~ In a (m_done m);
    li_ne : k = MTurn -> c <> [];
    li_nd : NoDup (map fst c);
    li_in : forall a, In a (map fst c) -> lo a ep = S (la a ep);
    li_out : forall a, ~ In a (map fst c) ->
                       lo a ep = la a ep \/ (lo a ep = S (la a ep) /\ In a (m_done m));
    li_dn : forall a, dones_ok a m ep;
    li_rd : forall a, length (rec_get a (ep_rew ep)) = length (rec_get a (ep_done ep));
    li_ord : k = MAll \/ k = MTurn -> incl (map fst c) order;
    li_cb : forall a, In a (map fst c) -> In a agents;
    li_wf : ep_wf ep
  }.

  Definition ep_good (ep : episode Obs Act) : Prop :=
    ep_wf ep /\
    forall a, la a ep <= lo a ep <= S (la a ep) /\
              Forall (eq false) (removelast (rec_get a (ep_done ep))) /\
              length (rec_get a (ep_rew ep)) = length (rec_get a (ep_done ep)).

  Lemma dones_ok_removelast a m ep :
    dones_ok a m ep -> Forall (eq false) (removelast (rec_get a (ep_done ep))).
  Proof.
    intros [H|(_ & l & -> & Hl)]; [|rewrite removelast_snoc; exact Hl].
    induction H as [|x l Hx Hl IH]; [constructor|]. destruct l as [|y l]; [constructor|].
    cbn [removelast]. constructor; [exact Hx|exact IH].
  Qed.

  Lemma linv_good k m c ep : linv k m c ep -> ep_good ep.
  Proof.
    intros I. split; [apply (li_wf _ _ _ _ I)|]. intros a.
    split; [|split; [apply (dones_ok_removelast a m), (li_dn _ _ _ _ I)|apply (li_rd _ _ _ _ I)]].
    destruct (in_dec Nat.eq_dec a (map fst c)) as [H|H].
    - rewrite (li_in _ _ _ _ I a H). lia.
    - destruct (li_out _ _ _ _ I a H) as [E|[E _]]; rewrite E; lia.
  Qed.

  Definition asks_in_order (its : list (iter Obs Info Act)) : Prop :=
    Forall (fun it => Forall (fun q => In (q_agent q) order) (it_q it)) its.

  (* ---- one iteration: the records after store ---- *)
  Lemma store_lo a ep (o : out Obs Info) (acts : list (nat * Act)) :
    lo a (store ep o acts) = lo a ep + length (occ a (o_obs o)) /\
    la a (store ep o acts) = la a ep + length (occ a acts) /\
    rec_get a (ep_done (store ep o acts)) = rec_get a (ep_done ep) ++ occ a (o_done o) /\
    length (rec_get a (ep_rew (store ep o acts)))
      = length (rec_get a (ep_rew ep)) + length (occ a (o_rew o)).
  Proof.
    unfold lo, la, store. cbn. rewrite !rec_get_all, !app_length. repeat split.
  Qed.

  Lemma keys_acts c (acts : list (nat * Act)) (qs : list (query Obs Act)) :
    map (fun q => (q_agent q, q_obs q)) qs = c -> acts = map (fun q => (q_agent q, q_act q)) qs ->
    map fst acts = map fst c.
  Proof. intros <- ->. rewrite !map_map. reflexivity. Qed.

  Lemma store_wf k m c ep acts (o : out Obs Info) m1 :
    linv k m c ep -> map fst acts = map fst c -> step_post Sim m o m1 -> ep_wf (store ep o acts).
  Proof.
    intros I Hka SP. destruct (li_wf _ _ _ _ I) as (W1 & W2 & W3 & W4).
    pose proof (st_wfo Sim _ _ _ SP) as (V1 & V2 & _). unfold keys in V1, V2.
    assert (Hk : forall b, In b (map fst (o_obs o)) -> In b agents)
      by (intros b Hb; apply (proj2 (st_fresh Sim _ _ _ SP b Hb))).
    unfold ep_wf, store. cbn. split; [|split; [|split]]; apply rec_all_wf; try assumption.
    - rewrite Hka. apply (li_cb _ _ _ _ I).
    - rewrite V1. exact Hk.
    - rewrite V2. exact Hk.
  Qed.

  Lemma store_final k m c ep acts (o : out Obs Info) m1 :
    linv k m c ep -> map fst acts = map fst c -> step_post Sim m o m1 ->
    ep_good (store ep o acts).
  Proof.
    intros I Hka SP. split; [apply (store_wf k m c ep acts o m1 I Hka SP)|]. intros a.
    destruct (store_lo a ep o acts) as (E1 & E2 & E3 & E4).
    pose proof (st_nodup Sim _ _ _ SP) as NDo. unfold keys in NDo.
    pose proof (st_wfo Sim _ _ _ SP) as (W1 & W2 & _). unfold keys in W1, W2.
    assert (NDa : NoDup (map fst acts)) by (rewrite Hka; apply (li_nd _ _ _ _ I)).
    assert (NDd : NoDup (map fst (o_done o))) by (rewrite W2; exact NDo).
    split; [|split].
    - rewrite E1, E2.
      destruct (in_dec Nat.eq_dec a (map fst c)) as [Hc|Hc].
      + rewrite (li_in _ _ _ _ I a Hc). rewrite <- Hka in Hc. rewrite (cnt_in a acts NDa Hc).
        destruct (in_dec Nat.eq_dec a (map fst (o_obs o))) as [Ho|Ho].
        * rewrite (cnt_in a _ NDo Ho). lia.
        * rewrite (cnt_out a _ Ho). lia.
      + assert (Hc' : ~ In a (map fst acts)) by (rewrite Hka; exact Hc).
        rewrite (cnt_out a acts Hc').
        destruct (in_dec Nat.eq_dec a (map fst (o_obs o))) as [Ho|Ho].
        * rewrite (cnt_in a _ NDo Ho).
          destruct (li_out _ _ _ _ I a Hc) as [E|[E Hd]]; [rewrite E; lia|].
          exfalso. apply (proj1 (st_fresh Sim _ _ _ SP a Ho)), Hd.
        * rewrite (cnt_out a _ Ho). destruct (li_out _ _ _ _ I a Hc) as [E|[E _]]; rewrite E; lia.
    - rewrite E3. destruct (in_dec Nat.eq_dec a (map fst (o_done o))) as [Ho|Ho].
      + destruct (occ_nodup_in a _ NDd Ho) as (b & Eb & _). rewrite Eb, removelast_snoc.
        destruct (li_dn _ _ _ _ I a) as [H|(Hd & _)]; [exact H|].
        exfalso. rewrite W2 in Ho. apply (proj1 (st_fresh Sim _ _ _ SP a Ho)), Hd.
      + rewrite (occ_notin a _ Ho), app_nil_r. apply (dones_ok_removelast a m), (li_dn _ _ _ _ I).
    - rewrite E4, E3, app_length, (li_rd _ _ _ _ I a). f_equal.
      apply occ_length_keys. rewrite W1, W2. reflexivity.
  Qed.

  Lemma store_linv k m c ep acts (o : out Obs Info) m1 c' :
    linv k m c ep -> map fst acts = map fst c -> step_post Sim m o m1 ->
    minv k m1 ->
    (forall a, In a (m_done m1) <-> In a (m_done m) \/ In (a, true) (o_done o)) ->
    (k = MTurn -> exists a, In (a, false) (o_done o)) ->
    (k = MAll \/ k = MTurn -> incl nonlearning (m_done m)) ->
    c' = filter (fun kv => negb (flagged (fst kv) (o_done o))) (o_obs o) ->
    linv k m1 c' (store ep o acts).
  Proof.
    intros I Hka SP Inv1 Hiff Hturn Hnl ->.
    pose proof (st_nodup Sim _ _ _ SP) as NDo. unfold keys in NDo.
    pose proof (st_wfo Sim _ _ _ SP) as (W1 & W2 & _). unfold keys in W1, W2.
    assert (NDa : NoDup (map fst acts)) by (rewrite Hka; apply (li_nd _ _ _ _ I)).
    assert (NDd : NoDup (map fst (o_done o))) by (rewrite W2; exact NDo).
    set (c' := filter (fun kv => negb (flagged (fst kv) (o_done o))) (o_obs o)).
    (* membership in the carried dict *)
    assert (Hc' : forall a, In a (map fst c') <->
                            In a (map fst (o_obs o)) /\ ~ In (a, true) (o_done o)).
    { intros a. unfold c'. rewrite in_map_iff. split.
      - intros ([a' x] & Ea & Hf). cbn in Ea. subst a'. apply filter_In in Hf as [Hin Hf].
        cbn in Hf. split; [change a with (fst (a, x)); apply in_map, Hin|].
        intros C. apply flagged_In in C. rewrite C in Hf. discriminate.
      - intros [Hin Hn]. apply in_map_iff in Hin as ([a' x] & Ea & Hx). cbn in Ea. subst a'.
        exists (a, x). split; [reflexivity|]. apply filter_In. split; [exact Hx|]. cbn.
        destruct (flagged a (o_done o)) eqn:Ef; [|reflexivity]. apply flagged_In in Ef. contradiction. }
    assert (Hfresh : forall a, In a (map fst (o_obs o)) -> ~ In a (m_done m))
      by (intros a Ha; apply (proj1 (st_fresh Sim _ _ _ SP a Ha))).
    constructor.
    - exact Inv1.
    - intros a Ha. apply Hc' in Ha as [Ho Hn]. rewrite Hiff. intros [C|C]; [apply (Hfresh a Ho C)|contradiction].
    - intros Hk Hnil. destruct (Hturn Hk) as (a & Ha).
      assert (Hin : In a (map fst c')).
      { apply Hc'. split.
        - rewrite <- W2. change a with (fst (a, false)). apply in_map, Ha.
        - intros C. pose proof (alookup_NoDup a _ _ NDd Ha) as L1.
          pose proof (alookup_NoDup a _ _ NDd C) as L2. congruence. }
      rewrite Hnil in Hin. exact Hin.
    - apply NoDup_map_filter, NDo.
    - intros a Ha. apply Hc' in Ha as [Ho Hn].
      destruct (store_lo a ep o acts) as (E1 & E2 & _). rewrite E1, E2, (cnt_in a _ NDo Ho).
      destruct (in_dec Nat.eq_dec a (map fst c)) as [Hc|Hc].
      + rewrite (li_in _ _ _ _ I a Hc). rewrite <- Hka in Hc. rewrite (cnt_in a acts NDa Hc). lia.
      + assert (Hca : ~ In a (map fst acts)) by (rewrite Hka; exact Hc). rewrite (cnt_out a acts Hca).
        destruct (li_out _ _ _ _ I a Hc) as [E|[E Hd]]; [rewrite E; lia|].
        exfalso. apply (Hfresh a Ho Hd).
    - intros a Ha. destruct (store_lo a ep o acts) as (E1 & E2 & _). rewrite E1, E2.
      destruct (in_dec Nat.eq_dec a (map fst (o_obs o))) as [Ho|Ho].
      + (* reported and flagged done: it is in done_agents from now on *)
        assert (Hfl : In (a, true) (o_done o)).
        { destruct (classic_flag a (o_done o)) as [C|C]; [exact C|].
          exfalso. apply Ha, Hc'. split; assumption. }
        assert (Hd1 : In a (m_done m1)) by (apply Hiff; right; exact Hfl).
        right. split; [|exact Hd1]. rewrite (cnt_in a _ NDo Ho).
        destruct (in_dec Nat.eq_dec a (map fst c)) as [Hc|Hc].
        * rewrite (li_in _ _ _ _ I a Hc). rewrite <- Hka in Hc. rewrite (cnt_in a acts NDa Hc). lia.
        * assert (Hca : ~ In a (map fst acts)) by (rewrite Hka; exact Hc). rewrite (cnt_out a acts Hca).
          destruct (li_out _ _ _ _ I a Hc) as [E|[E Hd]]; [rewrite E; lia|].
          exfalso. apply (Hfresh a Ho Hd).
      + rewrite (cnt_out a _ Ho).
        destruct (in_dec Nat.eq_dec a (map fst c)) as [Hc|Hc].
        * left. rewrite (li_in _ _ _ _ I a Hc). rewrite <- Hka in Hc. rewrite (cnt_in a acts NDa Hc). lia.
        * assert (Hca : ~ In a (map fst acts)) by (rewrite Hka; exact Hc). rewrite (cnt_out a acts Hca).
          destruct (li_out _ _ _ _ I a Hc) as [E|[E Hd]]; [left; rewrite E; lia|].
          right. split; [rewrite E; lia|]. apply Hiff. left. exact Hd.
    - intros a. unfold dones_ok. destruct (store_lo a ep o acts) as (_ & _ & E3 & _). rewrite E3.
      destruct (in_dec Nat.eq_dec a (map fst (o_done o))) as [Ho|Ho].
      + destruct (occ_nodup_in a _ NDd Ho) as (b & Eb & Hb). rewrite Eb.
        assert (Hold : Forall (eq false) (rec_get a (ep_done ep))).
        { destruct (li_dn _ _ _ _ I a) as [H|(Hd & _)]; [exact H|].
          exfalso. rewrite W2 in Ho. apply (Hfresh a Ho Hd). }
        destruct b.
        * right. split; [apply Hiff; right; exact Hb|]. exists (rec_get a (ep_done ep)).
          split; [reflexivity|exact Hold].
        * left. apply Forall_app. split; [exact Hold|repeat constructor].
      + rewrite (occ_notin a _ Ho), app_nil_r.
        destruct (li_dn _ _ _ _ I a) as [H|(Hd & Hl)]; [left; exact H|].
        right. split; [apply Hiff; left; exact Hd|exact Hl].
    - intros a. destruct (store_lo a ep o acts) as (_ & _ & E3 & E4).
      rewrite E4, E3, app_length, (li_rd _ _ _ _ I a). f_equal.
      apply occ_length_keys. rewrite W1, W2. reflexivity.
    - intros Hk a Ha. apply Hc' in Ha as [Ho _].
      apply (outside_is_order Sim (m_done m)); [apply Hnl, Hk| |apply Hfresh, Ho].
      apply (proj2 (st_fresh Sim _ _ _ SP a Ho)).
    - intros a Ha. apply Hc' in Ha as [Ho _]. apply (proj2 (st_fresh Sim _ _ _ SP a Ho)).
    - apply (store_wf k m c ep acts o m1 I Hka SP).
  Qed.

  Lemma minv_nl k m : minv k m -> k = MAll \/ k = MTurn -> incl nonlearning (m_done m).
  Proof. intros I [-> | ->]; cbn in I; [exact I|apply I]. Qed.

  (* ---- the loop, with the managers' guarantees: it never fails and the records are good ---- *)
  Lemma ep_loop_mgr k h : tk k -> sim_ok k -> forall j m ps c ep its st ep' m' ps',
    linv k m c ep ->
    ep_loop h j k m ps c ep = (its, st, ep', m', ps') ->
    st = EOk /\ ep_good ep' /\ (k = MAll \/ k = MTurn -> asks_in_order its).
  Proof.
    intros Hk Hsim. induction h as [|h IH]; intros j m ps c ep its st ep' m' ps' I H; simpl in H.
    - injection H as <- <- <- <- <-. split; [reflexivity|]. split; [eapply linv_good, I|].
      intros _. constructor.
    - destruct (compute_actions ps c) as [[acts qs] ps1] eqn:Eca.
      destruct (compute_actions_spec pmap pol_act _ _ _ _ _ Eca) as (Q1 & Q2 & Q3).
      pose proof (keys_acts c acts qs Q1 Q2) as Hka.
      assert (Hfresh : forall a, In a (map fst acts) -> ~ In a (m_done m))
        by (rewrite Hka; apply (li_fresh _ _ _ _ I)).
      assert (Hne : k = MTurn -> acts <> []).
      { intros Hkt C. apply (li_ne _ _ _ _ I Hkt). rewrite C in Hka. destruct c; [reflexivity|discriminate]. }
      destruct (mgr_step_ok k m acts (shuf j acts) Hk Hsim (li_m _ _ _ _ I) Hfresh Hne)
        as (o & m1 & E & SP & Hcont).
      rewrite E in H.
      assert (Hq : k = MAll \/ k = MTurn -> Forall (fun q => In (q_agent q) order) qs).
      { intros Hk2. apply Forall_forall. intros q Hq. apply (li_ord _ _ _ _ I Hk2).
        rewrite <- Q1, map_map. cbn. apply in_map_iff. exists q. split; [reflexivity|exact Hq]. }
      destruct (o_all o) eqn:Hall.
      + injection H as <- <- <- <- <-. split; [reflexivity|].
        split; [apply (store_final k m c ep acts o m1 I Hka SP)|].
        intros Hk2. constructor; [cbn; apply Hq, Hk2|constructor].
      + destruct (Hcont eq_refl) as (Inv1 & Hiff & Hturn).
        pose proof (st_nodup Sim _ _ _ SP) as NDo. unfold keys in NDo.
        pose proof (st_wfo Sim _ _ _ SP) as (W1 & W2 & _). unfold keys in W1, W2.
        destruct (del_done_total (o_done o) (o_obs o)) as (c' & Edel).
        { intros a Ha. rewrite <- W2. change a with (fst (a, true)). apply in_map, Ha. }
        { rewrite W2. exact NDo. }
        rewrite Edel in H.
        destruct (ep_loop h (S j) k m1 ps1 c' (store ep o acts)) as [[[[its1 st1] ep2] m2] ps2] eqn:Eloop.
        injection H as <- <- <- <- <-.
        assert (I1 : linv k m1 c' (store ep o acts)).
        { eapply store_linv; try eassumption.
          - apply minv_nl, (li_m _ _ _ _ I).
          - apply del_done_filter, Edel. }
        destruct (IH _ _ _ _ _ _ _ _ _ _ I1 Eloop) as (R1 & R2 & R3).
        split; [exact R1|]. split; [exact R2|].
        intros Hk2. constructor; [cbn; apply Hq, Hk2|apply R3, Hk2].
  Qed.

  (* ---- generate_episode ---- *)
  Lemma linv_initial k m obs :
    minv k m -> NoDup (map fst obs) ->
    (forall a, In a (map fst obs) -> ~ In a (m_done m) /\ In a agents) ->
    (k = MTurn -> obs <> []) -> (k = MAll \/ k = MTurn -> incl (map fst obs) order) ->
    linv k m obs {| ep_obs := rec_all obs []; ep_act := []; ep_rew := []; ep_done := [];
                    ep_all := [] |}.
  Proof.
    intros Inv ND Hf Hne Hord. constructor; try assumption.
    - intros a Ha. apply (Hf a Ha).
    - intros a Ha. unfold lo, la. cbn. rewrite rec_get_all. cbn. apply (cnt_in a obs ND Ha).
    - intros a Ha. left. unfold lo, la. cbn. rewrite rec_get_all. cbn. apply (cnt_out a obs Ha).
    - intros a. left. constructor.
    - intros a. reflexivity.
    - intros a Ha. apply (Hf a Ha).
    - assert (E : forall X, rec_wf (fun b => In b agents) (@nil (nat * list X)))
        by (intros X; split; [constructor|split; [constructor|intros b []]]).
      unfold ep_wf. cbn. split; [|split; [|split]]; try apply E.
      apply rec_all_wf; [apply E|]. intros b Hb. apply (Hf b Hb).
  Qed.

  Lemma generate_episode_good h k m ps :
    tk k -> sim_ok k ->
    let r := generate_episode h k m ps in
    er_status r = EOk /\ ep_good (er_ep r) /\ (exists obs, er_reset r = RObs obs) /\
    (k = MAll \/ k = MTurn -> asks_in_order (er_iters r)).
  Proof.
    intros Hk Hsim. unfold Trainer.generate_episode.
    destruct (mgr_reset_ok k m Hk Hsim) as (obs & m1 & E & Inv & ND & Hf & Hne & Hord).
    rewrite E.
    destruct (ep_loop h 0 k m1 (pol_reset ps) obs _) as [[[[its st] ep] m2] ps2] eqn:Eloop.
    cbn [er_status er_ep er_reset er_iters].
    destruct (ep_loop_mgr k h Hk Hsim _ _ _ _ _ _ _ _ _ _ (linv_initial k m1 obs Inv ND Hf Hne Hord) Eloop)
      as (R1 & R2 & R3).
    split; [exact R1|]. split; [exact R2|]. split; [exists obs; reflexivity|exact R3].
  Qed.

  Lemma generate_episode_struct h k m ps obs :
    let r := generate_episode h k m ps in
    er_reset r = RObs obs ->
    queries_spec obs [] (er_iters r) /\
    Forall (sends_ok pmap) (er_iters r) /\
    length (er_iters r) <= h /\
    Forall (fun it => exists o, it_resp it = ROut o /\ o_all o = false) (removelast (er_iters r)) /\
    (er_status r = EOk -> length (er_iters r) = h \/ last_all (er_iters r)) /\
    (er_status r = EOk ->
       (forall a,
          rec_get a (ep_obs (er_ep r)) = occ a obs ++ flat_map (fun o => occ a (o_obs o)) (outs_of' (er_iters r)) /\
          rec_get a (ep_act (er_ep r)) = flat_map (fun it => occ a (it_sent it)) (er_iters r) /\
          rec_get a (ep_rew (er_ep r)) = flat_map (fun o => occ a (o_rew o)) (outs_of' (er_iters r)) /\
          rec_get a (ep_done (er_ep r)) = flat_map (fun o => occ a (o_done o)) (outs_of' (er_iters r))) /\
       ep_all (er_ep r) = map o_all (outs_of' (er_iters r)) /\
       Forall (fun it => exists o, it_resp it = ROut o) (er_iters r)).
  Proof.
    unfold Trainer.generate_episode.
    destruct (do_call Sim k m CReset) as [r0 m1].
    destruct r0 as [obs0|o| | |]; try (cbn; intros C; discriminate C).
    destruct (ep_loop h 0 k m1 (pol_reset ps) obs0 _) as [[[[its st] ep] m2] ps2] eqn:Eloop.
    cbn [er_reset er_status er_ep er_iters]. intros Er. injection Er as ->.
    destruct (ep_loop_struct Sim pmap pol_act shuf k h _ _ _ _ _ _ _ _ _ _ Eloop) as (S1 & S2 & S3 & S4 & S5 & S6).
    split.
    { apply S1. symmetry. clear. induction obs as [|kv obs IH]; [reflexivity|]. cbn. f_equal. exact IH. }
    split; [exact S2|]. split; [exact S3|]. split; [exact S4|]. split; [exact S5|].
    intros Hs. destruct (S6 Hs) as (G & Ga & Gr). split; [|split; [exact Ga|exact Gr]].
    intros a. destruct (G a) as (G1 & G2 & G3 & G4). cbn in G1, G2, G3, G4.
    rewrite rec_get_all in G1. cbn in G1. repeat split; assumption.
  Qed.

  (* ---- _check_agent_policy_alignment ---- *)
  Variable npol : nat.
  Variables a_obs_sp a_act_sp p_obs_sp p_act_sp : nat -> Z.
  Notation check_agents := (check_agents Sim pmap npol a_obs_sp a_act_sp p_obs_sp p_act_sp).
  Notation check_alignment := (check_alignment Sim pmap npol a_obs_sp a_act_sp p_obs_sp p_act_sp).

  Lemma check_agents_ok l :
    check_agents l = AlOk ->
    forall a, In a l -> sim_learning Sim a = true ->
      pmap a < npol /\ a_act_sp a = p_act_sp (pmap a) /\ a_obs_sp a = p_obs_sp (pmap a).
  Proof.
    induction l as [|b l IH]; simpl; intros H a Ha Hl; [contradiction|].
    destruct (sim_learning Sim b) eqn:Eb.
    - destruct (Nat.ltb (pmap b) npol) eqn:Elt; [|discriminate].
      destruct ((a_act_sp b =? p_act_sp (pmap b))%Z && (a_obs_sp b =? p_obs_sp (pmap b))%Z) eqn:Esp;
        [|discriminate].
      destruct Ha as [<-|Ha]; [|apply IH; assumption].
      apply andb_true_iff in Esp as [E1 E2]. apply Z.eqb_eq in E1, E2. apply Nat.ltb_lt in Elt.
      repeat split; assumption.
    - destruct Ha as [<-|Ha]; [congruence|apply IH; assumption].
  Qed.

  (* a policy is only ever handed observations of an agent that is mapped to it, and if that
     agent is a learning agent, the policy's spaces are the agent's *)
  Lemma policy_spaces h k m ps :
    check_alignment = AlOk ->
    let r := generate_episode h k m ps in
    Forall (fun it => Forall (fun q =>
        q_pid q = pmap (q_agent q) /\
        (In (q_agent q) order ->
         q_pid q < npol /\ a_obs_sp (q_agent q) = p_obs_sp (q_pid q) /\
         a_act_sp (q_agent q) = p_act_sp (q_pid q))) (it_q it)) (er_iters r).
  Proof.
    intros Hal r.
    assert (Hs : Forall (sends_ok pmap) (er_iters r)).
    { subst r. unfold Trainer.generate_episode. destruct (do_call Sim k m CReset) as [r0 m1].
      destruct r0; cbn [er_iters]; try constructor.
      destruct (ep_loop h 0 k m1 (pol_reset ps) obs _) as [[[[its st] ep] m2] ps2] eqn:Eloop.
      cbn [er_iters]. apply (ep_loop_struct Sim pmap pol_act shuf k h _ _ _ _ _ _ _ _ _ _ Eloop). }
    eapply Forall_impl; [|exact Hs]. intros it [_ Hq].
    eapply Forall_impl; [|exact Hq]. intros q Ep. split; [exact Ep|].
    intros Ho. apply order_spec in Ho as [Ha Hl]. rewrite Ep.
    destruct (check_agents_ok _ Hal (q_agent q) Ha Hl) as (C1 & C2 & C3). repeat split; assumption.
  Qed.
End TM.

(* ================================================================== chk_C16 on the model *)
Lemma zlist_eqb_refl l : zlist_eqb l l = true.
Proof. induction l as [|x l IH]; [reflexivity|]. cbn. rewrite Z.eqb_refl. exact IH. Qed.
Lemma bools_eqb_refl l : bools_eqb l l = true.
Proof. induction l as [|x l IH]; [reflexivity|]. cbn. rewrite eqb_reflx. exact IH. Qed.
Lemma perm_kvs_refl l : perm_kvs l l = true.
Proof.
  unfold perm_kvs. rewrite Nat.eqb_refl. cbn. apply forallb_forall. intros x _. apply Nat.eqb_refl.
Qed.

Lemma rec_get_NoDup {X} a (l : list X) r : NoDup (map fst r) -> In (a, l) r -> rec_get a r = l.
Proof.
  induction r as [|[b l'] r IH]; simpl; intros ND H; [contradiction|].
  inversion ND as [|? ? Hn ND']; subst. destruct H as [H|H].
  - injection H as -> ->. rewrite Nat.eqb_refl. reflexivity.
  - destruct (Nat.eqb a b) eqn:E; [|apply IH; assumption].
    apply Nat.eqb_eq in E. subst. exfalso. apply Hn. change b with (fst (b, l)). apply in_map, H.
Qed.

Lemma script_next_ok sc : rows_ok sc = true -> next_ok (script_sim sc).
Proof.
  intros H s. cbn. unfold ss_next, row_at.
  set (t := Nat.min (s_t s) (length (sc_rows sc) - 1)).
  destruct (nth_in_or_default t (sc_rows sc) empty_row) as [Hin|Hd].
  - unfold rows_ok in H. rewrite forallb_forall in H. specialize (H _ Hin).
    apply andb_true_iff in H as [H1 H2]. split; [apply nodupb_NoDup, H1|].
    intros a Ha. rewrite forallb_forall in H2. specialize (H2 a Ha). apply Nat.ltb_lt in H2.
    unfold agents. cbn. apply in_seq. lia.
  - rewrite Hd. cbn. split; [constructor|intros a []].
Qed.

Section TS.
  Variable i : tinput.
  Notation sc := (ti_sc i).
  Notation k := (ti_k i).
  Notation Sim := (script_sim sc).
  Notation npol := (length (ti_psp i)).
  Notation a_obs := (fun a => fst (nth a (ti_asp i) (0, 0)%Z)).
  Notation a_act := (fun a => snd (nth a (ti_asp i) (0, 0)%Z)).
  Notation p_obs := (fun p => fst (nth p (ti_psp i) (0, 0)%Z)).
  Notation p_act := (fun p => snd (nth p (ti_psp i) (0, 0)%Z)).

  (* well-formed input: one of the three managers; a turn-based manager needs a learning agent;
     a dynamic-order script nominates duplicate-free lists of existing agents *)
  Definition twf : Prop :=
    tk k /\ (k = MTurn -> corder sc <> []) /\ (k = MDyn -> rows_ok sc = true).
  Hypothesis Hwf : twf.

  Lemma script_sim_ok : sim_ok Sim k.
  Proof.
    destruct Hwf as (_ & H2 & H3). split; [intros _; apply script_done_stable|].
    split; [intros Hk; apply script_next_ok, H3, Hk|exact H2].
  Qed.

  Lemma check_agents_aligned l :
    check_agents Sim (ti_pm i) npol a_obs a_act p_obs p_act l = AlOk <->
    forallb (fun a => Nat.ltb (ti_pm i a) npol
                      && (a_act a =? p_act (ti_pm i a))%Z && (a_obs a =? p_obs (ti_pm i a))%Z)
            (filter (clearn sc) l) = true.
  Proof.
    induction l as [|a l IH]; [cbn; tauto|]. cbn [check_agents filter].
    change (sim_learning Sim a) with (clearn sc a). destruct (clearn sc a); [|exact IH].
    cbn [forallb]. destruct (Nat.ltb (ti_pm i a) npol); cbn [andb]; [|split; discriminate].
    destruct ((a_act a =? p_act (ti_pm i a))%Z && (a_obs a =? p_obs (ti_pm i a))%Z); cbn [andb];
      [exact IH|split; discriminate].
  Qed.

  Lemma t_align_aligned : t_align i = AlOk <-> t_aligned i = true.
  Proof. unfold t_align, check_alignment, t_aligned. apply check_agents_aligned. Qed.

  Notation pol := (wire_pol (ti_seed i)).
  Notation gen := (generate_episode Sim (ti_pm i) pol (fun c : nat => c) (fun _ acts => acts)
                                    (ti_h i) k (init (ss_init sc)) O).

  Definition query_ok (q : query Z Z) : Prop :=
    q_pid q = ti_pm i (q_agent q) /\
    (In (q_agent q) (corder sc) -> a_obs (q_agent q) = p_obs (q_pid q)).

  Lemma chk_iters_sound its : forall left lobs ldone,
    queries_spec lobs ldone its -> Forall (sends_ok (ti_pm i)) its ->
    Forall (fun it => Forall query_ok (it_q it)) its ->
    length its <= left ->
    Forall (fun it => exists o, it_resp it = ROut o /\ o_all o = false) (removelast its) ->
    Forall (fun it => exists o, it_resp it = ROut o) its ->
    chk_iters i left lobs ldone its true = 0%Z.
  Proof.
    induction its as [|it its IH]; intros left lobs ldone Hq Hs Hqo Hlen Hrl Hro;
      [destruct left; reflexivity|].
    destruct left as [|left]; [cbn in Hlen; lia|]. cbn [chk_iters].
    destruct Hq as [Hask Hnext]. inversion Hs as [|? ? [Hsent Hpid] Hs']; subst.
    inversion Hqo as [|? ? Hq1 Hqo']; subst. inversion Hro as [|? ? (o & Eo) Hro']; subst.
    assert (Ecq : first_code (map (chk_query i lobs ldone) (it_q it)) = 0%Z).
    { assert (Hall : forall q, In q (it_q it) -> chk_query i lobs ldone q = 0%Z).
      { intros q Hin.
        assert (Hf : In (q_agent q, q_obs q) (filter (fun kv => negb (flagged (fst kv) ldone)) lobs)).
        { rewrite <- Hask. unfold asked. apply in_map_iff. exists q. split; [reflexivity|exact Hin]. }
        apply filter_In in Hf as [Hin2 Hfl]. cbn in Hfl. apply negb_true_iff in Hfl.
        rewrite Forall_forall in Hq1. destruct (Hq1 q Hin) as [Ep Hsp].
        unfold chk_query.
        assert (M1 : memb (q_agent q) (map fst lobs) = true).
        { apply memb_In. change (q_agent q) with (fst (q_agent q, q_obs q)). apply in_map, Hin2. }
        rewrite M1, Hfl. cbn [negb].
        assert (M2 : existsb (fun kv : nat * Z => Nat.eqb (fst kv) (q_agent q) && (snd kv =? q_obs q)%Z) lobs = true).
        { apply existsb_exists. exists (q_agent q, q_obs q). split; [exact Hin2|]. cbn.
          rewrite Nat.eqb_refl, Z.eqb_refl. reflexivity. }
        rewrite M2, Ep, Nat.eqb_refl. cbn [negb].
        destruct (memb (q_agent q) (corder sc)) eqn:Em; [|reflexivity].
        apply memb_In in Em. rewrite <- Ep, (Hsp Em), Z.eqb_refl. reflexivity. }
      revert Hall. generalize (it_q it) as qs. intros qs.
      induction qs as [|q qs IHq]; intros Hall; [reflexivity|]. cbn [map first_code].
      rewrite (Hall q (or_introl eq_refl)). cbn. apply IHq. intros q' Hq'. apply Hall. right. exact Hq'. }
    rewrite Ecq. cbn [Z.eqb negb]. rewrite Hsent. fold (answers it). rewrite perm_kvs_refl. cbn [negb].
    rewrite Eo in *. destruct (o_all o) eqn:Hall.
    - destruct its as [|it2 its2]; [reflexivity|]. exfalso. cbn [removelast] in Hrl.
      inversion Hrl as [|? ? (o' & E1 & E2) _]; subst. rewrite Eo in E1. injection E1 as <-. congruence.
    - apply IH; try assumption.
      + cbn in Hlen. lia.
      + destruct its as [|it2 its2]; [constructor|]. cbn [removelast] in Hrl.
        inversion Hrl; assumption.
  Qed.

  Lemma rec_keys_ok_wf {X} (r : list (nat * list X)) :
    rec_wf (fun b => In b (agents Sim)) r -> rec_keys_ok i r = true.
  Proof.
    intros (W1 & W2 & W3). unfold rec_keys_ok. apply andb_true_iff. split; [apply nodupb_NoDup, W1|].
    apply forallb_forall. intros [a l] Hal. cbn. apply andb_true_iff. split.
    - apply Nat.ltb_lt. assert (Ha : In a (agents Sim)) by (apply W3; change a with (fst (a, l)); apply in_map, Hal).
      unfold agents in Ha. apply in_seq in Ha. cbn in Ha. lia.
    - rewrite Forall_forall in W2. specialize (W2 _ Hal). cbn in W2.
      destruct l; [contradiction|reflexivity].
  Qed.

  Lemma chk_C16_model_lemma : chk_C16 i (trainer_model i) = true.
  Proof.
    unfold chk_C16, chk_C16_code, trainer_model.
    pose proof t_align_aligned as Hal.
    destruct (t_align i) eqn:Eal.
    - (* aligned: the episode is generated *)
      assert (Ht : t_aligned i = true) by (apply Hal; reflexivity). rewrite Ht.
      destruct Hwf as (Hk & _).
      pose proof (generate_episode_good Sim (ti_pm i) pol (fun c : nat => c) (fun _ acts => acts)
                    (ti_h i) k (init (ss_init sc)) O Hk script_sim_ok) as G.
      cbv zeta in G. destruct G as (Gs & (Gwf & Gg) & (obs0 & Gr) & _).
      pose proof (generate_episode_struct Sim (ti_pm i) pol (fun c : nat => c) (fun _ acts => acts)
                    (ti_h i) k (init (ss_init sc)) O obs0) as S.
      cbv zeta in S. destruct (S Gr) as (S1 & S2 & S3 & S4 & S5 & S6).
      pose proof (policy_spaces Sim (ti_pm i) pol (fun c : nat => c) (fun _ acts => acts)
                    npol a_obs a_act p_obs p_act (ti_h i) k (init (ss_init sc)) O Eal) as P.
      cbv zeta in P.
      set (r := gen) in *. rewrite Gs, Gr. cbn [tb_status tb_reset tb_iters tb_ep Z.eqb orb negb].
      destruct (S6 Gs) as (Rec & Rall & Rout).
      assert (Hqo : Forall (fun it => Forall query_ok (it_q it)) (er_iters r)).
      { eapply Forall_impl; [|exact P]. intros it Hit. eapply Forall_impl; [|exact Hit].
        intros q [Ep Hsp]. split; [exact Ep|]. intros Hin. apply (Hsp Hin). }
      rewrite (chk_iters_sound _ _ _ _ S1 S2 Hqo S3 S4 Rout). cbn [Z.eqb negb].
      (* stops *)
      assert (Hstop : stops_ok i (er_iters r) = true).
      { unfold stops_ok. destruct (S5 Gs) as [Hl|(its0 & itl & ol & E1 & E2 & E3)].
        - rewrite Hl, Nat.eqb_refl. reflexivity.
        - rewrite E1, last_last, E2, E3, app_length. cbn.
          rewrite Nat.add_comm. cbn. apply orb_true_r. }
      rewrite Hstop. cbn [negb].
      (* records *)
      assert (Hrec : chk_records i obs0 (er_iters r) (er_ep r) = true).
      { unfold chk_records. destruct Gwf as (W1 & W2 & W3 & W4).
        rewrite !rec_keys_ok_wf by assumption. cbn [andb].
        change (outs_of (er_iters r)) with (outs_of' (er_iters r)).
        rewrite Rall, bools_eqb_refl. cbn [andb].
        apply forallb_forall. intros a _. destruct (Rec a) as (R1 & R2 & R3 & R4).
        destruct (Gg a) as (L1 & _ & L3). unfold lo, la in L1.
        rewrite <- R1, <- R2, <- R3, <- R4, !zlist_eqb_refl, bools_eqb_refl. cbn [andb].
        rewrite L3, Nat.eqb_refl, andb_true_r. apply andb_true_iff. split; apply Nat.leb_le; lia. }
      rewrite Hrec. cbn [negb].
      assert (Hone : one_done_ok (er_ep r) = true).
      { unfold one_done_ok. apply forallb_forall. intros [a l] Hal2. cbn.
        destruct Gwf as (_ & _ & _ & (W1 & _)). destruct (Gg a) as (_ & L2 & _).
        rewrite (rec_get_NoDup a l _ W1 Hal2) in L2.
        apply forallb_forall. intros b Hb. rewrite Forall_forall in L2. rewrite <- (L2 b Hb). reflexivity. }
      rewrite Hone. reflexivity.
    - assert (Ht : t_aligned i = false).
      { destruct (t_aligned i) eqn:E; [|reflexivity]. destruct Hal as [_ H2]. specialize (H2 eq_refl). discriminate. }
      cbn. rewrite Ht. reflexivity.
    - assert (Ht : t_aligned i = false).
      { destruct (t_aligned i) eqn:E; [|reflexivity]. destruct Hal as [_ H2]. specialize (H2 eq_refl). discriminate. }
      cbn. rewrite Ht. reflexivity.
  Qed.
End TS.

(* ================================================================== the clauses of C16 *)
Section TW.
  Context {St Obs Info Act PS : Type}.
  Variable Sim : simulation St Obs Info Act.
  Variable pmap : nat -> nat.
  Variable pol_act : PS -> nat -> Obs -> Act * PS.
  Variable pol_reset : PS -> PS.
  Variable shuf : nat -> list (nat * Act) -> list (nat * Act).
  Notation generate_episode := (generate_episode Sim pmap pol_act pol_reset shuf).

  Lemma queries_live_only h k m ps obs :
    er_reset (generate_episode h k m ps) = RObs obs ->
    queries_spec obs [] (er_iters (generate_episode h k m ps)).
  Proof. intros H. apply (generate_episode_struct Sim pmap pol_act pol_reset shuf h k m ps obs H). Qed.

  Lemma sends_exactly_those h k m ps obs :
    er_reset (generate_episode h k m ps) = RObs obs ->
    Forall (sends_ok pmap) (er_iters (generate_episode h k m ps)).
  Proof. intros H. apply (generate_episode_struct Sim pmap pol_act pol_reset shuf h k m ps obs H). Qed.

  Lemma stops h k m ps obs :
    let r := generate_episode h k m ps in
    er_reset r = RObs obs ->
    length (er_iters r) <= h /\
    Forall (fun it => exists o, it_resp it = ROut o /\ o_all o = false) (removelast (er_iters r)) /\
    (er_status r = EOk -> length (er_iters r) = h \/ last_all (er_iters r)).
  Proof.
    intros r H. destruct (generate_episode_struct Sim pmap pol_act pol_reset shuf h k m ps obs H)
      as (_ & _ & S3 & S4 & S5 & _). repeat split; assumption.
  Qed.

  Lemma never_fails h k m ps :
    tk k -> sim_ok Sim k ->
    er_status (generate_episode h k m ps) = EOk /\
    exists obs, er_reset (generate_episode h k m ps) = RObs obs.
  Proof.
    intros Hk Hs. destruct (generate_episode_good Sim pmap pol_act pol_reset shuf h k m ps Hk Hs)
      as (G1 & _ & G3 & _). split; assumption.
  Qed.

  Lemma records_aligned h k m ps obs :
    let r := generate_episode h k m ps in
    er_reset r = RObs obs -> er_status r = EOk ->
    (forall a,
       rec_get a (ep_obs (er_ep r)) = occ a obs ++ flat_map (fun o => occ a (o_obs o)) (outs_of' (er_iters r)) /\
       rec_get a (ep_act (er_ep r)) = flat_map (fun it => occ a (it_sent it)) (er_iters r) /\
       rec_get a (ep_rew (er_ep r)) = flat_map (fun o => occ a (o_rew o)) (outs_of' (er_iters r)) /\
       rec_get a (ep_done (er_ep r)) = flat_map (fun o => occ a (o_done o)) (outs_of' (er_iters r))) /\
    ep_all (er_ep r) = map o_all (outs_of' (er_iters r)).
  Proof.
    intros r H Hs. destruct (generate_episode_struct Sim pmap pol_act pol_reset shuf h k m ps obs H)
      as (_ & _ & _ & _ & _ & S6). destruct (S6 Hs) as (R1 & R2 & _). split; assumption.
  Qed.

  Lemma records_lengths h k m ps :
    tk k -> sim_ok Sim k ->
    let ep := er_ep (generate_episode h k m ps) in
    forall a,
      length (rec_get a (ep_act ep)) <= length (rec_get a (ep_obs ep)) <= S (length (rec_get a (ep_act ep))) /\
      length (rec_get a (ep_rew ep)) = length (rec_get a (ep_done ep)).
  Proof.
    intros Hk Hs ep a.
    destruct (generate_episode_good Sim pmap pol_act pol_reset shuf h k m ps Hk Hs) as (_ & (_ & G) & _).
    destruct (G a) as (L1 & _ & L3). split; assumption.
  Qed.

  Lemma one_done h k m ps :
    tk k -> sim_ok Sim k ->
    forall a, Forall (eq false)
                (removelast (rec_get a (ep_done (er_ep (generate_episode h k m ps))))).
  Proof.
    intros Hk Hs a.
    destruct (generate_episode_good Sim pmap pol_act pol_reset shuf h k m ps Hk Hs) as (_ & (_ & G) & _).
    apply (G a).
  Qed.

  Lemma asks_learning_agents h k m ps :
    k = MAll \/ k = MTurn -> sim_ok Sim k ->
    asks_in_order Sim (er_iters (generate_episode h k m ps)).
  Proof.
    intros Hk Hs. assert (Hk' : tk k) by (destruct Hk as [-> | ->]; [left|right; left]; reflexivity).
    destruct (generate_episode_good Sim pmap pol_act pol_reset shuf h k m ps Hk' Hs) as (_ & _ & _ & G).
    apply G, Hk.
  Qed.
End TW.
