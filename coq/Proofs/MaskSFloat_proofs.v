(* Binary64 layer of C10 over the standard library's executable IEEE-754 specification
   (Floats.SpecFloat, prec = 53, emax = 1024): plain Gallina, so these theorems are closed
   under the global context.  Same transcription of the eight cases (`shadow`). *)
From Coq Require Import ZArith List Bool Lia SpecFloat.
From Abm Require Import Base.Sx Grid.Mask Grid.MaskFloat Proofs.Mask_proofs.
Import ListNotations.
Open Scope Z_scope.

Lemma sfloat_agree_all_15 : agree_all mask_sfloat 15 = true.
Proof. vm_cast_no_check (eq_refl true). Qed.

Theorem sfloat_agrees_upto_15 : forall R b q, R <= 15 ->
  in_window R b = true -> in_window R q = true -> mask_sfloat R b q = mask_code R b q.
Proof.
  intros R b q HR Hb Hq. rewrite code_meets_spec by assumption.
  exact (agree_all_sound hfS rayS ltS_l ltS_r 15 sfloat_agree_all_15 R b q HR Hb Hq).
Qed.

Theorem sfloat_refuted_15 : exists b q,
  in_window 15 b = true /\ in_window 15 q = true /\
  cross (snd (corners b)) q = 0 /\
  mask_sfloat_prefix 15 b q = true /\ mask_code 15 b q = false /\ mask_sfloat 15 b q = false.
Proof.
  exists (-8, -6), (-15, -13). vm_compute. repeat split; reflexivity.
Qed.

Theorem sfloat_refuted_15_chk : exists Ms,
  masks8_with mask_sfloat_prefix f6_layout = Some Ms /\
  chk_C10 f6_layout (map of_matrix Ms) = -2.
Proof. eexists. split; [vm_compute; reflexivity | vm_compute; reflexivity]. Qed.
