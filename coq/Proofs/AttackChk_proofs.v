(* chk_C11_model: the executable checker of C11 (Grid/AttackChk.v: chk_attack) answers 0 on the
   attack model's own output, for every well-formed state, attacker, configuration, action, oracle
   and visibility function. *)
From Coq Require Import ZArith List Bool Arith Lia Permutation.
From Abm Require Import Base.Sx Grid.Overlap Grid.Grid Grid.Move Grid.Attack Grid.Vis Grid.AttackRun
  Grid.AttackChk Proofs.Grid_proofs Proofs.Move_proofs Proofs.Attack_proofs Proofs.GridChk_proofs
  Proofs.MoveChk_proofs Proofs.AttackLim_proofs.
Import ListNotations.
Open Scope Z_scope.

(* ---- the ammunition filter keeps a sub-multiset ------------------------------------------------------ *)
Lemma countn_app x l m : countn x (l ++ m) = (countn x l + countn x m)%nat.
Proof. induction l as [|y l IH]; cbn [app countn]; [reflexivity|]. rewrite IH. lia. Qed.

Lemma countn_pos_In x l : (1 <= countn x l)%nat -> In x l.
Proof.
  induction l as [|y l IH]; cbn [countn]; [lia|]. destruct (Nat.eqb x y) eqn:E.
  - apply Nat.eqb_eq in E. subst. intros _. left. reflexivity.
  - intros H. right. apply IH. lia.
Qed.

Lemma submultiset_perm ch : forall l, submultiset ch l = true -> exists rest, Permutation l (ch ++ rest).
Proof.
  induction ch as [|x ch IH]; intros l H; [exists l; apply Permutation_refl|].
  unfold submultiset in H. rewrite forallb_forall in H.
  assert (Hx : In x l).
  { apply countn_pos_In. specialize (H x (or_introl eq_refl)). apply Nat.leb_le in H.
    cbn [countn] in H. rewrite Nat.eqb_refl in H. lia. }
  apply in_split in Hx as (l1 & l2 & ->).
  destruct (IH (l1 ++ l2)) as (rest & Hp).
  - unfold submultiset. apply forallb_forall. intros y Hy. specialize (H y (or_intror Hy)).
    apply Nat.leb_le in H. apply Nat.leb_le. rewrite countn_app in *. cbn [countn] in H.
    destruct (Nat.eqb y x); lia.
  - exists rest. cbn [app]. eapply Permutation_trans; [apply Permutation_sym, Permutation_middle|].
    apply perm_skip, Hp.
Qed.

Lemma filter_length_perm {X} (f : X -> bool) l m : Permutation l m ->
  length (filter f l) = length (filter f m).
Proof.
  induction 1 as [|x l m _ IH|x y l|l m n _ IH1 _ IH2]; cbn [filter]; try reflexivity.
  - destruct (f x); cbn [length]; rewrite IH; reflexivity.
  - destruct (f x), (f y); reflexivity.
  - congruence.
Qed.

(* `kept` = what the ammunition filter may return of `hits` *)
Definition kept (hits' hits : list nat) : Prop := exists rest, Permutation hits (hits' ++ rest).

Lemma kept_In hits' hits v : kept hits' hits -> In v hits' -> In v hits.
Proof.
  intros (rest & Hp) Hv. apply (Permutation_in _ (Permutation_sym Hp)). apply in_or_app. left. exact Hv.
Qed.

Lemma kept_NoDup hits' hits : kept hits' hits -> NoDup hits -> NoDup hits'.
Proof. intros (rest & Hp) H. apply (Permutation_NoDup Hp) in H. apply (NoDup_app_l _ _ H). Qed.

Lemma kept_filter_le hits' hits (f : nat -> bool) : kept hits' hits ->
  (length (filter f hits') <= length (filter f hits))%nat.
Proof. intros (rest & Hp). rewrite (filter_length_perm f _ _ Hp), filter_app, app_length. lia. Qed.

Lemma kept_length_le hits' hits : kept hits' hits -> (length hits' <= length hits)%nat.
Proof. intros (rest & Hp). rewrite (Permutation_length Hp), app_length. lia. Qed.

(* ---- the per-cell limit of the restricted selective actor ------------------------------------------- *)
Definition aimedR (cf : acfg) (cm : bool) (attack : list Z) (d : cell) : Z :=
  Z.of_nat (length (filter (fun k => negb (k =? 0) && cell_eqb (cell_of_id (c_range cf) cm k) d) attack)).

Lemma aimed_at_restricted cf cm l d : aimed_at cf (ARestricted cm l) d = aimedR cf cm l d.
Proof. reflexivity. Qed.

Lemma cell_eqb_sym p q : cell_eqb p q = cell_eqb q p.
Proof.
  destruct (cell_eqb p q) eqn:E.
  - apply cell_eqb_eq in E. subst. symmetry. apply cell_eqb_refl.
  - apply cell_eqb_neq in E. symmetry. apply cell_eqb_neq. congruence.
Qed.

Lemma hits_at_single s att v d d' : offset_of s att v = Some d' ->
  hits_at s att [v] d = if cell_eqb d' d then 1 else 0.
Proof.
  intros H. rewrite hits_at_offb. cbn [filter]. unfold offb. rewrite H, (cell_eqb_sym d d').
  destruct (cell_eqb d' d); reflexivity.
Qed.

Lemma aimedR_cons cf cm k ks d :
  aimedR cf cm (k :: ks) d =
  (if negb (k =? 0) && cell_eqb (cell_of_id (c_range cf) cm k) d then 1 else 0) + aimedR cf cm ks d.
Proof.
  unfold aimedR. cbn [filter]. destruct (negb (k =? 0) && cell_eqb _ d); cbn [length]; lia.
Qed.

(* one step of the restricted loop: which agent may be appended *)
Lemma res_step_hit vis cm s cf att p o k l o1 v :
  ginv s -> att_pos s att = Some p -> 0 <= c_range cf ->
  1 <= k <= (2 * c_range cf + 1) * (2 * c_range cf + 1) ->
  criteria_all s cf att o (cands_at vis s cf att p (cell_of_id (c_range cf) cm k)) = AOk l o1 ->
  forall hits, In v (filter_fresh (c_stacked cf) hits l) ->
  offset_of s att v = Some (cell_of_id (c_range cf) cm k) /\ eligible vis s cf att v = true.
Proof.
  intros G Hp HR Hk Ec hits Hv. destruct (filter_fresh_In _ _ _ _ Hv) as [Hl _].
  destruct (criteria_all_sound _ _ _ _ _ _ _ Ec v Hl) as [Hc Hcr].
  assert (Hd : In (cell_of_id (c_range cf) cm k) (window (c_range cf))) by (apply cell_of_id_window; assumption).
  destruct (eligible_intro vis s cf att p _ v G Hp Hd Hc Hcr). auto.
Qed.

Lemma res_loop_cell vis cm s cf att p :
  ginv s -> att_pos s att = Some p -> 0 <= c_range cf ->
  forall attack o hits h o',
  Forall (fun k => 0 <= k <= (2 * c_range cf + 1) * (2 * c_range cf + 1)) attack ->
  res_loop vis cm s cf att p o hits attack = AOk h o' ->
  forall d, hits_at s att h d <= hits_at s att hits d + aimedR cf cm attack d.
Proof.
  intros G Hp HR. induction attack as [|k ks IH]; intros o hits h o' Hrng H d; cbn [res_loop] in H.
  - injection H as <- <-. unfold aimedR. cbn. lia.
  - inversion Hrng as [|? ? Hk Hks]; subst. rewrite aimedR_cons. destruct (k =? 0) eqn:Ek.
    + cbn [negb andb]. specialize (IH _ _ _ _ Hks H d). lia.
    + apply Z.eqb_neq in Ek. cbn [negb andb].
      destruct (criteria_all s cf att o (cands_at vis s cf att p (cell_of_id (c_range cf) cm k)))
        as [l o1|] eqn:Ec; [|discriminate].
      destruct (filter_fresh (c_stacked cf) hits l) as [|x xs] eqn:Ef.
      * specialize (IH _ _ _ _ Hks H d). destruct (cell_eqb _ d); lia.
      * destruct (o_choice o1) as [|[|v [|? ?]] cs]; try discriminate.
        destruct (memn v (x :: xs)) eqn:Em; [|discriminate]. apply memn_In in Em. rewrite <- Ef in Em.
        destruct (res_step_hit vis cm s cf att p o k l o1 v G Hp HR ltac:(lia) Ec hits Em) as [Ho _].
        specialize (IH _ _ _ _ Hks H d). rewrite hits_at_app, (hits_at_single s att v d _ Ho) in IH. lia.
Qed.

(* ---- the clauses about the determined hits, all four actors ---------------------------------------- *)
Definition act_wf (cf : acfg) (act : aaction) : Prop :=
  match act with
  | ABinary n => 0 <= n
  | AEncoding l => NoDup (map fst l) /\ Forall (fun kv => 0 <= snd kv) l
  | ASelective l => Forall (fun n => 0 <= n) l
  | ARestricted _ l =>
      0 <= c_range cf /\ Forall (fun k => 0 <= k <= (2 * c_range cf + 1) * (2 * c_range cf + 1)) l
  end.

Definition limitsP (s : gstate) (cf : acfg) (att : nat) (act : aaction) (hits : list nat) : Prop :=
  match act with
  | ABinary n => Z.of_nat (length hits) <= n
  | AEncoding l =>
      (forall e num, In (e, num) l -> Z.of_nat (length (filter (fun v => enc_of s v =? e) hits)) <= num) /\
      (forall v, In v hits -> In (enc_of s v) (map fst l))
  | ASelective _ => forall d, In d (window (c_range cf)) -> hits_at s att hits d <= aimed_at cf act d
  | ARestricted _ l =>
      (forall d, In d (window (c_range cf)) -> hits_at s att hits d <= aimed_at cf act d) /\
      Z.of_nat (length hits) <= Z.of_nat (length (filter (fun k => negb (k =? 0)) l))
  end.

Lemma limitsP_kept s cf att act hits' hits : kept hits' hits ->
  limitsP s cf att act hits -> limitsP s cf att act hits'.
Proof.
  intros K. destruct act as [n|l|l|cm l]; cbn [limitsP].
  - pose proof (kept_length_le _ _ K). lia.
  - intros [A B]. split.
    + intros e num Hin. specialize (A e num Hin).
      pose proof (kept_filter_le _ _ (fun v => enc_of s v =? e) K). lia.
    + intros v Hv. apply B, (kept_In _ _ _ K Hv).
  - intros A d Hd. specialize (A d Hd). rewrite !hits_at_offb in *.
    pose proof (kept_filter_le _ _ (offb s att d) K). lia.
  - intros [A B]. split.
    + intros d Hd. specialize (A d Hd). rewrite !hits_at_offb in *.
      pose proof (kept_filter_le _ _ (offb s att d) K). lia.
    + pose proof (kept_length_le _ _ K). lia.
Qed.

Lemma limitsP_ok s cf att act hits : limitsP s cf att act hits -> limits_ok s cf att act hits = true.
Proof.
  destruct act as [n|l|l|cm l]; cbn [limitsP limits_ok]; unfold lenZ.
  - intros H. apply Z.leb_le, H.
  - intros [A B]. apply andb_true_iff. split.
    + apply forallb_forall. intros [e num] Hin. apply Z.leb_le. cbn [fst snd]. apply A, Hin.
    + apply forallb_forall. intros v Hv. apply existsb_exists. specialize (B v Hv).
      apply in_map_iff in B as (kv & E & Hkv). exists kv. split; [exact Hkv|]. apply Z.eqb_eq. congruence.
  - intros A. apply forallb_forall. intros d Hd. apply Z.leb_le, A, Hd.
  - intros [A B]. apply andb_true_iff. split.
    + apply forallb_forall. intros d Hd. apply Z.leb_le, A, Hd.
    + apply Z.leb_le, B.
Qed.

Lemma req_combine ds : NoDup ds -> forall attack d n, In (d, n) (combine ds attack) -> req ds attack d = n.
Proof.
  induction ds as [|d0 r IH]; intros Hnd [|n0 ns] d n Hin; cbn [combine] in Hin;
    [destruct Hin|destruct Hin|destruct Hin|].
  inversion Hnd as [|? ? Hd0 Hr]; subst. cbn [req]. destruct Hin as [E|Hin].
  - injection E as -> ->. rewrite cell_eqb_refl. reflexivity.
  - assert (N : d <> d0) by (intros ->; apply Hd0, (in_combine_l _ _ _ _ Hin)).
    apply cell_eqb_neq in N. rewrite N. apply IH; assumption.
Qed.

Definition not_restricted (act : aaction) : Prop :=
  match act with ARestricted _ _ => False | _ => True end.

Lemma determine_status vis s cf att p o act st hits o1 :
  determine vis s cf att p o act = AOk (st, hits) o1 ->
  st = attempted act /\ (attempted act = false -> hits = []).
Proof.
  destruct act as [n|l|l|cm l]; cbn [determine attempted].
  - unfold det_binary. destruct (n =? 0); cbn [negb].
    + intros E. injection E as <- <- <-. auto.
    + destruct (scan_all _ _ _ _ _ _ _) as [[|x l] o2|]; try discriminate.
      * intros E. injection E as <- <- <-. split; [reflexivity|discriminate].
      * destruct (subset_attackables _ _ _ _); [|discriminate]. intros E. injection E as <- <- <-.
        split; [reflexivity|discriminate].
  - unfold det_encoding. destruct (forallb _ l); cbn [negb].
    + intros E. injection E as <- <- <-. auto.
    + destruct (scan_all _ _ _ _ _ _ _); [|discriminate]. destruct (enc_loop _ _ _ _ _); [|discriminate].
      intros E. injection E as <- <- <-. split; [reflexivity|discriminate].
  - unfold det_selective. destruct (forallb _ l); cbn [negb].
    + intros E. injection E as <- <- <-. auto.
    + destruct (sel_loop _ _ _ _ _ _ _ _); [|discriminate].
      intros E. injection E as <- <- <-. split; [reflexivity|discriminate].
  - unfold det_restricted. destruct (forallb _ l); cbn [negb].
    + intros E. injection E as <- <- <-. auto.
    + destruct (res_loop _ _ _ _ _ _ _ _ _); [|discriminate].
      intros E. injection E as <- <- <-. split; [reflexivity|discriminate].
Qed.

Lemma determine_facts vis s cf att p o act st hits o1 :
  ginv s -> att_pos s att = Some p -> act_wf cf act ->
  determine vis s cf att p o act = AOk (st, hits) o1 ->
  (forall v, In v hits -> eligible vis s cf att v = true) /\
  (cell_directed act = true ->
     forall v, In v hits -> exists d, offset_of s att v = Some d /\ 0 < aimed_at cf act d) /\
  limitsP s cf att act hits /\
  (c_stacked cf = false -> NoDup hits).
Proof.
  intros G Hp Hwf H. destruct act as [n|l|l|cm l]; cbn [determine act_wf cell_directed limitsP] in *.
  - split; [apply (det_binary_eligible _ _ _ _ _ _ _ _ _ _ G Hp H)|]. split; [discriminate|].
    split; [apply (det_binary_limit _ _ _ _ _ _ _ _ _ _ Hwf H)|].
    intros Hs. apply (det_binary_nodup _ _ _ _ _ _ _ _ _ _ G Hs H).
  - destruct Hwf as [Hnd Hpos].
    split; [apply (det_encoding_eligible _ _ _ _ _ _ _ _ _ _ G Hp H)|]. split; [discriminate|].
    split; [apply (det_encoding_limits _ _ _ _ _ _ _ _ _ _ Hnd Hpos H)|].
    intros Hs. apply (det_encoding_nodup _ _ _ _ _ _ _ _ _ _ G Hs Hnd H).
  - pose proof (det_selective_eligible _ _ _ _ _ _ _ _ _ _ G Hp H) as He.
    split; [intros v Hv; apply (He v Hv)|]. split; [|split].
    + intros _ v Hv. destruct (He v Hv) as (_ & d & n & Hin & Hn & Ho). exists d. split; [exact Ho|].
      rewrite aimed_at_req by (apply in_combine_l in Hin; exact Hin).
      rewrite (req_combine _ (NoDup_window _) l d n Hin).
      apply in_combine_r in Hin. rewrite Forall_forall in Hwf. specialize (Hwf n Hin). lia.
    + apply (det_selective_limits _ _ _ _ _ _ _ _ _ _ G Hp Hwf H).
    + intros Hs. apply (det_selective_nodup _ _ _ _ _ _ _ _ _ _ G Hp Hwf Hs H).
  - destruct Hwf as [HR Hrng].
    destruct (det_restricted_eligible _ _ _ _ _ _ _ _ _ _ _ G Hp HR Hrng H) as (A & B & C).
    split; [intros v Hv; apply (A v Hv)|]. split; [|split; [split|exact B]].
    + intros _ v Hv. destruct (A v Hv) as (_ & k & Hk & Hk0 & Ho). exists (cell_of_id (c_range cf) cm k).
      split; [exact Ho|]. rewrite aimed_at_restricted. unfold aimedR.
      set (f := fun k0 => negb (k0 =? 0) && cell_eqb (cell_of_id (c_range cf) cm k0) (cell_of_id (c_range cf) cm k)).
      assert (Hin : In k (filter f l)).
      { apply filter_In. split; [exact Hk|]. unfold f. apply Z.eqb_neq in Hk0. rewrite Hk0, cell_eqb_refl. reflexivity. }
      destruct (filter f l); [destruct Hin|]. cbn [length]. lia.
    + intros d _. rewrite aimed_at_restricted. unfold det_restricted in H.
      destruct (forallb (fun n => n =? 0) l).
      * injection H as <- <- <-. rewrite hits_at_offb. cbn. unfold aimedR. lia.
      * destruct (res_loop vis cm s cf att p o [] l) as [h o2|] eqn:Eh; [|discriminate].
        injection H as <- <- <-.
        pose proof (res_loop_cell vis cm s cf att p G Hp HR l o [] h o2 Hrng Eh d) as Hc.
        rewrite (hits_at_offb s att [] d) in Hc. cbn in Hc. exact Hc.
    + lia.
Qed.

Lemma determine_full vis s cf att p o act st hits o1 :
  ginv s -> att_pos s att = Some p -> act_wf cf act -> not_restricted act ->
  c_accuracy cf = HD -> draws_ok o ->
  determine vis s cf att p o act = AOk (st, hits) o1 ->
  Z.of_nat (length hits) = expected_full vis s cf att act.
Proof.
  intros G Hp Hwf Hnr Hacc D H. destruct act as [n|l|l|cm l]; cbn [determine act_wf not_restricted] in *.
  - apply (det_binary_full _ _ _ _ _ _ _ _ _ _ G Hp Hacc D Hwf H).
  - apply (det_encoding_full _ _ _ _ _ _ _ _ _ _ G Hp Hacc D (proj2 Hwf) H).
  - apply (det_selective_full _ _ _ _ _ _ _ _ _ _ G Hp Hacc D Hwf H).
  - destruct Hnr.
Qed.

(* ---- vitals and frame after the attack ----------------------------------------------------------------- *)
Lemma agents_after_ok_intro cf att hits : forall l l' k,
  length l = length l' ->
  (forall i b b', nth_error l i = Some b -> nth_error l' i = Some b' ->
                  agent_after_ok cf att hits (k + i) b b' = true) ->
  agents_after_ok cf att hits k l l' = true.
Proof.
  induction l as [|b r IH]; intros [|b' r'] k Hlen H; cbn [length] in Hlen; try discriminate; [reflexivity|].
  cbn [agents_after_ok]. apply andb_true_iff. split.
  - specialize (H O b b' eq_refl eq_refl). rewrite Nat.add_0_r in H. exact H.
  - apply IH; [lia|]. intros i c c' Hc Hc'. specialize (H (S i) c c' Hc Hc').
    rewrite Nat.add_succ_r in H. exact H.
Qed.

Lemma agent_after_ok_intro cf att hits j b b1 b' am' :
  (* b1: the record after the ammunition update, b': after the hits *)
  a_enc b1 = a_enc b -> a_pos b1 = a_pos b -> a_orient b1 = a_orient b -> a_blocking b1 = a_blocking b ->
  a_health b1 = a_health b -> a_active b1 = a_active b ->
  after_hits b1 b' (c_strength cf) (Z.of_nat (countn j hits)) ->
  (if Nat.eqb j att
   then match a_ammo b with
        | Some am => a_ammo b1 = Some am' /\ am' = am - Z.of_nat (length hits) /\ 0 <= am' /\
                     Z.of_nat (length hits) <= am
        | None => a_ammo b1 = None
        end
   else a_ammo b1 = a_ammo b) ->
  agent_after_ok cf att hits j b b' = true.
Proof.
  intros E1 E2 E3 E4 E5 E6 (A1 & A2 & A3 & A4 & A5 & A6 & A7) Ham. unfold agent_after_ok, lenZ.
  rewrite A1, A2, A4, A5, A6, A7, E1, E2, E3, E4, E5, E6.
  rewrite Z.eqb_refl, optcell_eqb_refl, optZ_eqb_refl, eqb_reflx. cbn [andb].
  set (m := Z.of_nat (countn j hits)).
  assert (X1 : (if a_active b then Z.max 0 (a_health b - c_strength cf * m) else a_health b) =?
               (if a_active b then Z.max 0 (a_health b - c_strength cf * m) else a_health b) = true)
    by apply Z.eqb_refl.
  rewrite X1. cbn [andb].
  assert (X2 : Bool.eqb (if a_active b then 0 <? a_health b - c_strength cf * m else false)
                 (if a_active b
                  then 0 <? (if a_active b then Z.max 0 (a_health b - c_strength cf * m) else a_health b)
                  else false) = true).
  { destruct (a_active b); [|reflexivity].
    destruct (0 <? a_health b - c_strength cf * m) eqn:Ea;
      [apply Z.ltb_lt in Ea|apply Z.ltb_ge in Ea].
    - assert (Eb : 0 <? Z.max 0 (a_health b - c_strength cf * m) = true) by (apply Z.ltb_lt; lia).
      rewrite Eb. reflexivity.
    - assert (Eb : 0 <? Z.max 0 (a_health b - c_strength cf * m) = false) by (apply Z.ltb_ge; lia).
      rewrite Eb. reflexivity. }
  rewrite X2. cbn [andb]. rewrite A3. destruct (Nat.eqb j att).
  - destruct (a_ammo b) as [am|].
    + destruct Ham as (-> & -> & H1 & H2). apply andb_true_iff. split; [apply andb_true_iff; split|].
      * apply Z.eqb_refl.
      * apply Z.leb_le, H1.
      * apply Z.leb_le, H2.
    + rewrite Ham. reflexivity.
  - rewrite Ham. apply optZ_eqb_refl.
Qed.

Lemma after_attack_agents vis s cf att o act st hits' s' o' a p hits o1 :
  ginv s -> 0 <= c_strength cf -> agent s att = Some a -> a_pos a = Some p ->
  process_attack vis s cf att o act = POk st hits' s' o' ->
  determine vis s cf att p o act = AOk (st, hits) o1 ->
  agents_after_ok cf att hits' O (g_agents s) (g_agents s') = true.
Proof.
  intros G Hst Ha Hp H Hdet.
  destruct (process_attack_spec vis s cf att o act st hits' s' o' a p Ha Hp H) as (hits0 & o0 & Hdet0 & Sp).
  rewrite Hdet in Hdet0. injection Hdet0 as <- <-.
  pose proof (srel_process_attack vis s cf att o act) as Hr. rewrite H in Hr.
  destruct Hr as (_ & _ & _ & Hlen & _).
  apply agents_after_ok_intro; [symmetry; exact Hlen|]. intros j b b' Hb Hb'. cbn [Nat.add].
  change (agent s j = Some b) in Hb. change (agent s' j = Some b') in Hb'.
  destruct (a_ammo a) as [am|] eqn:Ham.
  - destruct Sp as (Ham0 & Hl & _ & Es'). set (am' := am - Z.of_nat (length hits')) in *.
    assert (Ham' : 0 <= am') by (unfold am'; lia).
    pose proof (set_ammo_inv s att a am' G Ha Ham') as G1.
    destruct (Nat.eqb j att) eqn:Ej.
    + apply Nat.eqb_eq in Ej. subst j. assert (b = a) by congruence. subst b.
      destruct (apply_hits_bookkeeping hits' _ (c_strength cf) att _ G1 Hst
                  (agent_set_agent_same s att (with_ammo a (Some am')) a Ha)) as (b2 & Hb2 & Aft).
      rewrite <- Es' in Hb2. assert (b2 = b') by congruence. subst b2.
      apply (agent_after_ok_intro cf att hits' att a (with_ammo a (Some am')) b' am'); try reflexivity; [exact Aft|].
      rewrite Nat.eqb_refl, Ham. cbn [with_ammo a_ammo]. split; [reflexivity|]. split; [reflexivity|]. lia.
    + apply Nat.eqb_neq in Ej.
      assert (Hb1 : agent (set_agent s att (with_ammo a (Some am'))) j = Some b)
        by (rewrite agent_set_agent_other by exact Ej; exact Hb).
      destruct (apply_hits_bookkeeping hits' _ (c_strength cf) j b G1 Hst Hb1) as (b2 & Hb2 & Aft).
      rewrite <- Es' in Hb2. assert (b2 = b') by congruence. subst b2.
      apply (agent_after_ok_intro cf att hits' j b b b' 0); try reflexivity; [exact Aft|].
      apply Nat.eqb_neq in Ej. rewrite Ej. reflexivity.
  - destruct Sp as (_ & Es').
    destruct (apply_hits_bookkeeping hits' s (c_strength cf) j b G Hst Hb) as (b2 & Hb2 & Aft).
    rewrite <- Es' in Hb2. assert (b2 = b') by congruence. subst b2.
    apply (agent_after_ok_intro cf att hits' j b b b' 0); try reflexivity; [exact Aft|].
    destruct (Nat.eqb j att) eqn:Ej; [|reflexivity].
    apply Nat.eqb_eq in Ej. subst j. assert (b = a) by congruence. subst b. rewrite Ham. reflexivity.
Qed.

Ltac chk_step :=
  match goal with
  | |- (if ?c then _ else _) = _ =>
      let Hc := fresh "Hc" in assert (Hc : c = false); [|rewrite Hc; clear Hc]
  end.

(* the composition; for the restricted selective actor the no-skipped-target clause (1104, only
   evaluated at accuracy 1) is covered when `full_ok` provides its count *)
Lemma chk_attack_compose vis s cf att o act st hits' s' o' :
  ginv s -> act_wf cf act -> 0 <= c_strength cf ->
  (c_accuracy cf = HD -> forall p hits o1, att_pos s att = Some p ->
     determine vis s cf att p o act = AOk (st, hits) o1 ->
     Z.of_nat (length hits) = expected_full vis s cf att act) ->
  process_attack vis s cf att o act = POk st hits' s' o' ->
  chk_attack vis s s' cf att act st hits' = 0.
Proof.
  intros G Hwf Hst Hfull H.
  destruct (agent s att) as [a|] eqn:Ha; [|unfold process_attack in H; rewrite Ha in H; discriminate].
  destruct (a_pos a) as [p|] eqn:Hp; [|unfold process_attack in H; rewrite Ha, Hp in H; discriminate].
  assert (Hap : att_pos s att = Some p) by (unfold att_pos; rewrite Ha; exact Hp).
  destruct (process_attack_spec vis s cf att o act st hits' s' o' a p Ha Hp H) as (hits & o1 & Hdet & Sp).
  destruct (determine_status _ _ _ _ _ _ _ _ _ _ Hdet) as [Est Hna].
  destruct (determine_facts vis s cf att p o act st hits o1 G Hap Hwf Hdet) as (El & Cd & Lim & Nd).
  assert (K : kept hits' hits /\
              Z.of_nat (length hits') = match a_ammo a with
                                        | Some am => Z.min (Z.of_nat (length hits)) am
                                        | None => Z.of_nat (length hits) end).
  { destruct (a_ammo a) as [am|].
    - destruct Sp as (_ & Hl & [->|Hsub] & _).
      + split; [exists []; rewrite app_nil_r; apply Permutation_refl|exact Hl].
      + split; [apply submultiset_perm, Hsub|exact Hl].
    - destruct Sp as [-> _]. split; [exists []; rewrite app_nil_r; apply Permutation_refl|reflexivity]. }
  destruct K as [K Klen].
  unfold chk_attack.
  chk_step. { rewrite Est, eqb_reflx. reflexivity. }
  chk_step.
  { destruct (attempted act) eqn:Eat; [reflexivity|]. cbn [negb andb]. rewrite (Hna eq_refl) in K.
    pose proof (kept_length_le _ _ K) as Hl. destruct hits'; [reflexivity|cbn in Hl; lia]. }
  chk_step.
  { apply negb_false_iff, forallb_forall. intros v Hv. apply El, (kept_In _ _ _ K Hv). }
  chk_step.
  { destruct (cell_directed act) eqn:Ecd; [|reflexivity]. cbn [andb]. apply negb_false_iff, forallb_forall.
    intros v Hv. destruct (Cd eq_refl v (kept_In _ _ _ K Hv)) as (d & -> & Hd). apply Z.ltb_lt, Hd. }
  chk_step.
  { apply negb_false_iff, limitsP_ok, (limitsP_kept _ _ _ _ _ _ K Lim). }
  chk_step.
  { destruct (c_stacked cf) eqn:Es; [reflexivity|]. cbn [negb andb]. apply negb_false_iff, nodupb_NoDup.
    apply (kept_NoDup _ _ K), Nd. reflexivity. }
  chk_step.
  { destruct (c_accuracy cf =? HD) eqn:Eacc; [|reflexivity]. apply Z.eqb_eq in Eacc.
    destruct (attempted act); [|reflexivity]. cbn [andb]. apply negb_false_iff, Z.eqb_eq.
    unfold lenZ, zmin. rewrite Ha, Klen, (Hfull Eacc p hits o1 Hap Hdet).
    destruct (a_ammo a); reflexivity. }
  chk_step.
  { apply negb_false_iff. apply (after_attack_agents vis s cf att o act st hits' s' o' a p hits o1); assumption. }
  chk_step.
  { apply negb_false_iff, ginv_cells_consistent.
    pose proof (process_attack_inv vis s cf att o act G) as G'. rewrite H in G'. exact G'. }
  reflexivity.
Qed.

Theorem chk_attack_model_partial vis s cf att o act st hits' s' o' :
  ginv s -> act_wf cf act -> 0 <= c_strength cf ->
  (c_accuracy cf = HD -> Forall (fun u => u <= HD) (o_unif o) /\ not_restricted act) ->
  process_attack vis s cf att o act = POk st hits' s' o' ->
  chk_attack vis s s' cf att act st hits' = 0.
Proof.
  intros G Hwf Hst Hacc H. apply (chk_attack_compose vis s cf att o act st hits' s' o' G Hwf Hst); [|exact H].
  intros Eacc p hits o1 Hap Hdet. destruct (Hacc Eacc) as [D Hnr].
  apply (determine_full vis s cf att p o act st hits o1 G Hap Hwf Hnr Eacc D Hdet).
Qed.

(* ---- restricted selective actor at full accuracy ------------------------------------------------------ *)
Lemma criteria_all_facts s cf att cands : forall o l o',
  criteria_all s cf att o cands = AOk l o' ->
  o_choice o' = o_choice o /\
  (draws_ok o -> draws_ok o' /\
     (c_accuracy cf = HD -> l = map (fun v => (v, critb s cf att v)) cands)).
Proof.
  induction cands as [|c r IH]; intros o l o' H; cbn [criteria_all] in H.
  - injection H as <- <-. split; [reflexivity|]. auto.
  - destruct (basic_criteria s cf att o c) as [b o1|] eqn:Eb; [|discriminate].
    destruct (criteria_all s cf att o1 r) as [l1 o2|] eqn:Ec; [|discriminate].
    injection H as <- <-.
    destruct (basic_criteria_le _ _ _ _ _ _ _ Eb) as (_ & B2 & B3).
    destruct (IH _ _ _ Ec) as (I1 & I2). split; [congruence|].
    intros D. destruct (B3 D) as [D1 Hb]. destruct (I2 D1) as [D2 Hl]. split; [exact D2|].
    intros Hacc. cbn [map]. rewrite <- (Hb Hacc), <- (Hl Hacc). reflexivity.
Qed.

Lemma filter_fresh_map stacked hits (f : nat -> bool) cands :
  filter_fresh stacked hits (map (fun v => (v, f v)) cands) =
  filter (fun v => f v && negb (memn v hits && negb stacked)) cands.
Proof.
  induction cands as [|v r IH]; cbn [map filter_fresh filter]; [reflexivity|].
  destruct (f v); cbn [negb andb]; [|exact IH].
  destruct (memn v hits && negb stacked); cbn [negb]; rewrite IH; reflexivity.
Qed.

Lemma filter_filter {X} (f g : X -> bool) l : filter g (filter f l) = filter (fun x => f x && g x) l.
Proof.
  induction l as [|x l IH]; cbn [filter]; [reflexivity|].
  destruct (f x); cbn [filter andb]; [destruct (g x)|]; rewrite IH; reflexivity.
Qed.

Lemma filter_partition_length {X} (f : X -> bool) l :
  (length (filter f l) + length (filter (fun x => negb (f x)) l) = length l)%nat.
Proof. induction l as [|x l IH]; cbn [filter length]; [reflexivity|]. destruct (f x); cbn [negb length]; lia. Qed.

Definition Jhits vis s cf att (hits : list nat) : Prop :=
  (forall v, In v hits -> eligible vis s cf att v = true) /\ (c_stacked cf = false -> NoDup hits).

(* the hits at offset d and the eligible candidates at d that were already hit are the same set *)
Lemma hit_cands_length vis s cf att p d hits :
  ginv s -> att_pos s att = Some p -> In d (window (c_range cf)) ->
  (forall v, In v hits -> eligible vis s cf att v = true) -> NoDup hits ->
  length (filter (fun v => memn v hits) (filter (critb s cf att) (cands_at vis s cf att p d))) =
  length (filter (offb s att d) hits).
Proof.
  intros G Hp Hd He Hnd. apply NoDup_same_length.
  - apply NoDup_filter, NoDup_filter, cands_at_NoDup, G.
  - apply NoDup_filter, Hnd.
  - intros v. rewrite !filter_In, memn_In. split.
    + intros [[Hc Hcr] Hh]. split; [exact Hh|]. apply critb_crit in Hcr.
      destruct (eligible_intro vis s cf att p d v G Hp Hd Hc Hcr) as [_ Ho].
      unfold offb. rewrite Ho. apply cell_eqb_refl.
    + intros [Hh Ho]. unfold offb in Ho. destruct (offset_of s att v) as [d'|] eqn:Eo; [|discriminate].
      apply cell_eqb_eq in Ho. subst d'.
      destruct (eligible_offset_cands vis s cf att p d v G Hp (He v Hh) Eo) as (_ & A & B). auto.
Qed.

Lemma hits_le_avail vis s cf att p d hits :
  ginv s -> att_pos s att = Some p -> In d (window (c_range cf)) ->
  (forall v, In v hits -> eligible vis s cf att v = true) -> NoDup hits ->
  hits_at s att hits d <= availc vis s cf att p d.
Proof.
  intros G Hp Hd He Hnd. rewrite hits_at_offb, <- (hit_cands_length vis s cf att p d hits G Hp Hd He Hnd).
  unfold availc. pose proof (filter_length_le (fun v => memn v hits)
                               (filter (critb s cf att) (cands_at vis s cf att p d))). lia.
Qed.

Lemma fresh_length vis s cf att p d o l o1 hits :
  ginv s -> att_pos s att = Some p -> In d (window (c_range cf)) ->
  c_accuracy cf = HD -> draws_ok o -> Jhits vis s cf att hits ->
  criteria_all s cf att o (cands_at vis s cf att p d) = AOk l o1 ->
  draws_ok o1 /\ o_choice o1 = o_choice o /\
  Z.of_nat (length (filter_fresh (c_stacked cf) hits l)) =
  if c_stacked cf then availc vis s cf att p d
  else availc vis s cf att p d - hits_at s att hits d.
Proof.
  intros G Hp Hd Hacc D [He Hnd] Ec. destruct (criteria_all_facts _ _ _ _ _ _ _ Ec) as (C1 & C2).
  destruct (C2 D) as [D1 Hl]. split; [exact D1|]. split; [exact C1|].
  rewrite (Hl Hacc), filter_fresh_map. destruct (c_stacked cf) eqn:Es.
  - unfold availc. f_equal. f_equal. apply filter_ext. intros v. cbn [negb]. rewrite !andb_false_r.
    cbn [negb]. apply andb_true_r.
  - specialize (Hnd eq_refl). rewrite hits_at_offb, <- (hit_cands_length vis s cf att p d hits G Hp Hd He Hnd).
    unfold availc.
    pose proof (filter_partition_length (fun v => memn v hits)
                  (filter (critb s cf att) (cands_at vis s cf att p d))) as Hpart.
    rewrite (filter_filter (critb s cf att) (fun x => negb (memn x hits))) in Hpart.
    assert (Ef : filter (fun v => critb s cf att v && negb (memn v hits && negb false))
                        (cands_at vis s cf att p d) =
                 filter (fun x => critb s cf att x && negb (memn x hits)) (cands_at vis s cf att p d)).
    { apply filter_ext. intros v. cbn [negb]. rewrite andb_true_r. reflexivity. }
    rewrite Ef. lia.
Qed.

Definition resG (cf : acfg) (c a av : Z) : Z :=
  if c_stacked cf then c + (if 0 <? av then a else 0) else Z.min (c + a) av.

Lemma res_loop_full vis cm s cf att p :
  ginv s -> att_pos s att = Some p -> 0 <= c_range cf -> c_accuracy cf = HD ->
  forall attack o hits h o',
  Forall (fun k => 0 <= k <= (2 * c_range cf + 1) * (2 * c_range cf + 1)) attack ->
  draws_ok o -> Jhits vis s cf att hits ->
  res_loop vis cm s cf att p o hits attack = AOk h o' ->
  forall d, In d (window (c_range cf)) ->
    hits_at s att h d =
    resG cf (hits_at s att hits d) (aimedR cf cm attack d) (availc vis s cf att p d).
Proof.
  intros G Hp HR Hacc. induction attack as [|k ks IH]; intros o hits h o' Hrng D J H d Hd;
    cbn [res_loop] in H.
  - injection H as <- <-. unfold resG, aimedR. cbn [filter length Z.of_nat]. destruct (c_stacked cf) eqn:Es.
    + destruct (0 <? _); lia.
    + destruct J as [He Hnd]. pose proof (hits_le_avail vis s cf att p d hits G Hp Hd He (Hnd Es)). lia.
  - inversion Hrng as [|? ? Hk Hks]; subst. rewrite aimedR_cons. destruct (k =? 0) eqn:Ek.
    + cbn [negb andb]. rewrite Z.add_0_l. apply (IH _ _ _ _ Hks D J H d Hd).
    + apply Z.eqb_neq in Ek. cbn [negb andb].
      set (dk := cell_of_id (c_range cf) cm k) in *.
      assert (Hdk : In dk (window (c_range cf))) by (apply cell_of_id_window; [exact HR|lia]).
      destruct (criteria_all s cf att o (cands_at vis s cf att p dk)) as [l o1|] eqn:Ec; [|discriminate].
      destruct (fresh_length vis s cf att p dk o l o1 hits G Hp Hdk Hacc D J Ec) as (D1 & _ & Hlen).
      destruct (filter_fresh (c_stacked cf) hits l) as [|x xs] eqn:Ef.
      * (* nothing left to attack on this cell *)
        rewrite (IH _ _ _ _ Hks D1 J H d Hd). cbn [length Z.of_nat] in Hlen. unfold resG.
        destruct (cell_eqb dk d) eqn:Ed; [|cbv iota; rewrite Z.add_0_l; reflexivity].
        apply cell_eqb_eq in Ed. subst d. destruct (c_stacked cf).
        -- rewrite <- Hlen. cbn. lia.
        -- assert (0 <= aimedR cf cm ks dk) by (unfold aimedR; lia). lia.
      * destruct (o_choice o1) as [|[|v [|? ?]] cs]; try discriminate.
        destruct (memn v (x :: xs)) eqn:Em; [|discriminate]. apply memn_In in Em. rewrite <- Ef in Em.
        destruct (res_step_hit vis cm s cf att p o k l o1 v G Hp HR ltac:(lia) Ec hits Em) as [Ho Hel].
        destruct (filter_fresh_In _ _ _ _ Em) as [_ Hfresh].
        assert (J' : Jhits vis s cf att (hits ++ [v])).
        { destruct J as [He Hnd]. split.
          - intros w Hw. apply in_app_or in Hw as [Hw|[<-|[]]]; [apply He, Hw|exact Hel].
          - intros Hs. apply NoDup_snoc; [apply Hnd, Hs|apply Hfresh, Hs]. }
        assert (D2 : draws_ok {| o_unif := o_unif o1; o_choice := cs |}) by exact D1.
        rewrite (IH _ _ _ _ Hks D2 J' H d Hd), hits_at_app, (hits_at_single s att v d dk Ho).
        unfold resG. destruct (c_stacked cf).
        -- cbn [length] in Hlen. destruct (cell_eqb dk d) eqn:Ed; [|cbv iota; rewrite Z.add_0_l, Z.add_0_r; reflexivity].
           apply cell_eqb_eq in Ed. subst d.
           assert (Eav : 0 <? availc vis s cf att p dk = true) by (apply Z.ltb_lt; lia).
           rewrite Eav. lia.
        -- f_equal. lia.
Qed.

Lemma sumZ_add {X} (f g : X -> Z) l :
  sumZ (map (fun x => f x + g x) l) = sumZ (map f l) + sumZ (map g l).
Proof. unfold sumZ. induction l as [|x l IH]; cbn [map fold_right]; [reflexivity|]. rewrite IH. lia. Qed.

Lemma sum_indicator d0 ds : NoDup ds -> In d0 ds ->
  sumZ (map (fun d => if cell_eqb d0 d then 1 else 0) ds) = 1.
Proof.
  induction ds as [|d r IH]; intros Hnd Hin; [destruct Hin|]. inversion Hnd as [|? ? Hd Hr]; subst.
  change (sumZ (map (fun d1 => if cell_eqb d0 d1 then 1 else 0) (d :: r)))
    with ((if cell_eqb d0 d then 1 else 0) + sumZ (map (fun d1 => if cell_eqb d0 d1 then 1 else 0) r)).
  destruct Hin as [->|Hin].
  - rewrite cell_eqb_refl, sumZ_zero; [reflexivity|]. intros d Hd'.
    assert (N : d0 <> d) by (intros ->; contradiction). apply cell_eqb_neq in N. rewrite N. reflexivity.
  - assert (N : d0 <> d) by (intros ->; contradiction). apply cell_eqb_neq in N. rewrite N.
    rewrite (IH Hr Hin). reflexivity.
Qed.

Lemma length_sum_hits_at s att ds : NoDup ds -> forall h,
  (forall v, In v h -> exists d, In d ds /\ offset_of s att v = Some d) ->
  Z.of_nat (length h) = sumZ (map (hits_at s att h) ds).
Proof.
  intros Hnd. induction h as [|v h IH]; intros Hoff.
  - rewrite sumZ_zero; [reflexivity|]. intros d _. reflexivity.
  - assert (E : map (hits_at s att (v :: h)) ds =
                map (fun d => hits_at s att [v] d + hits_at s att h d) ds).
    { apply map_ext. intros d. apply (hits_at_app s att [v] h d). }
    rewrite E, sumZ_add, <- IH by (intros w Hw; apply Hoff; right; exact Hw).
    destruct (Hoff v (or_introl eq_refl)) as (d0 & Hd0 & Ho).
    assert (E1 : map (hits_at s att [v]) ds = map (fun d => if cell_eqb d0 d then 1 else 0) ds).
    { apply map_ext. intros d. apply (hits_at_single s att v d d0 Ho). }
    rewrite E1, (sum_indicator d0 ds Hnd Hd0). cbn [length]. lia.
Qed.

Lemma expected_full_restricted vis s cf att cm l :
  expected_full vis s cf att (ARestricted cm l) =
  sumZ (map (fun d => per cf (Z.of_nat (length (eligible_at vis s cf att d))) (aimedR cf cm l d))
            (window (c_range cf))).
Proof. reflexivity. Qed.

Theorem det_restricted_full vis cm s cf att p o l st hits o' :
  ginv s -> att_pos s att = Some p -> 0 <= c_range cf ->
  Forall (fun k => 0 <= k <= (2 * c_range cf + 1) * (2 * c_range cf + 1)) l ->
  c_accuracy cf = HD -> draws_ok o ->
  det_restricted vis cm s cf att p o l = AOk (st, hits) o' ->
  Z.of_nat (length hits) = expected_full vis s cf att (ARestricted cm l).
Proof.
  intros G Hp HR Hrng Hacc D H. rewrite expected_full_restricted.
  pose proof (det_restricted_eligible _ _ _ _ _ _ _ _ _ _ _ G Hp HR Hrng H) as (A & _ & _).
  assert (Hoff : forall v, In v hits -> exists d, In d (window (c_range cf)) /\ offset_of s att v = Some d).
  { intros v Hv. destruct (A v Hv) as (_ & k & Hk & Hk0 & Ho). exists (cell_of_id (c_range cf) cm k).
    split; [|exact Ho]. apply cell_of_id_window; [exact HR|]. rewrite Forall_forall in Hrng.
    specialize (Hrng k Hk). lia. }
  rewrite (length_sum_hits_at s att _ (NoDup_window _) hits Hoff). unfold sumZ. f_equal.
  apply map_ext_in. intros d Hd. rewrite <- (availc_eligible_at vis s cf att p d G Hp Hd).
  unfold det_restricted in H. destruct (forallb (fun n => n =? 0) l) eqn:Ez.
  - injection H as <- <- <-. rewrite hits_at_offb. cbn [filter length Z.of_nat].
    assert (Ea : aimedR cf cm l d = 0).
    { unfold aimedR. rewrite filter_none; [reflexivity|]. intros k Hk. rewrite forallb_forall in Ez.
      rewrite (Ez k Hk). reflexivity. }
    rewrite Ea, per_zero by apply availc_nonneg. reflexivity.
  - destruct (res_loop vis cm s cf att p o [] l) as [h o2|] eqn:Eh; [|discriminate].
    injection H as <- <- <-.
    assert (J0 : Jhits vis s cf att []) by (split; [intros v []|intros _; constructor]).
    rewrite (res_loop_full vis cm s cf att p G Hp HR Hacc l o [] h o2 Hrng D J0 Eh d Hd).
    rewrite (hits_at_offb s att [] d). cbn [filter length Z.of_nat]. unfold resG, per.
    destruct (c_stacked cf); [destruct (0 <? _); lia|lia].
Qed.

Theorem chk_attack_model vis s cf att o act st hits' s' o' :
  ginv s -> act_wf cf act -> 0 <= c_strength cf ->
  (c_accuracy cf = HD -> Forall (fun u => u <= HD) (o_unif o)) ->
  process_attack vis s cf att o act = POk st hits' s' o' ->
  chk_attack vis s s' cf att act st hits' = 0.
Proof.
  intros G Hwf Hst Hacc H. apply (chk_attack_compose vis s cf att o act st hits' s' o' G Hwf Hst); [|exact H].
  intros Eacc p hits o1 Hap Hdet. specialize (Hacc Eacc).
  destruct act as [n|l|l|cm l].
  - apply (determine_full vis s cf att p o _ st hits o1 G Hap Hwf I Eacc Hacc Hdet).
  - apply (determine_full vis s cf att p o _ st hits o1 G Hap Hwf I Eacc Hacc Hdet).
  - apply (determine_full vis s cf att p o _ st hits o1 G Hap Hwf I Eacc Hacc Hdet).
  - destruct Hwf as [HR Hrng]. cbn [determine] in Hdet.
    apply (det_restricted_full vis cm s cf att p o l st hits o1 G Hap HR Hrng Eacc Hacc Hdet).
Qed.

(* ---- sequences of attacks, through the snapshot codec ------------------------------------------------ *)
Definition aop_wf (op : aop) : Prop :=
  act_wf (op_cfg op) (op_act op) /\ 0 <= c_strength (op_cfg op) /\
  (c_accuracy (op_cfg op) = HD -> Forall (fun u => u <= HD) (o_unif (op_orc op))).

(* every operation is well formed and its recorded draws are admissible (the model does not stop
   with "bad oracle" or an error) *)
Fixpoint aops_ok (s : gstate) (ops : list aop) : Prop :=
  match ops with
  | [] => True
  | op :: r =>
      aop_wf op /\
      match process_attack vis_model s (op_cfg op) (op_att op) (op_orc op) (op_act op) with
      | POk _ _ s' _ => aops_ok s' r
      | _ => False
      end
  end.

Lemma chk_attack_sim sh s sh' s' cf att act st hits : hdr sh s -> sim sh' s' ->
  chk_attack vis_model sh sh' cf att act st hits = chk_attack vis_model s s' cf att act st hits.
Proof.
  intros Hh Hs. pose proof (cells_consistent_sim _ _ Hs) as Ecc.
  destruct Hs as [(_ & _ & _ & Eag) _].
  unfold chk_attack. rewrite Ecc, Eag. clear Ecc Eag.
  destruct sh, s. unfold hdr in Hh. cbn in Hh. destruct Hh as (-> & -> & -> & ->). reflexivity.
Qed.

Theorem chk_aops_model ops : forall s0 s sh,
  ginv s -> hdr sh s -> srel s0 s -> aops_ok s ops ->
  chk_aops s0 sh ops (run_aops s ops) = 0.
Proof.
  induction ops as [|op r IH]; intros s0 s sh G Hh Hr Hok; [reflexivity|].
  cbn [aops_ok] in Hok. destruct Hok as [(Hwf & Hst & Hacc) Hok]. cbn [run_aops].
  pose proof (srel_process_attack vis_model s (op_cfg op) (op_att op) (op_orc op) (op_act op)) as Hr1.
  pose proof (process_attack_inv vis_model s (op_cfg op) (op_att op) (op_orc op) (op_act op) G) as G1.
  destruct (process_attack vis_model s (op_cfg op) (op_att op) (op_orc op) (op_act op))
    as [st hits s' o'| |] eqn:Ep; [|destruct Hok|destruct Hok].
  cbn [chk_aops]. rewrite sxB_ofB, sxNats_ofNats.
  assert (Hr' : srel s0 s') by (apply srel_trans with s; assumption).
  pose proof Hr' as (Er & Ec & Eo & El & _).
  destruct (dec_enc_snapshot s0 s' Er Ec Eo El) as (sh' & Ed & Hs). rewrite Ed.
  rewrite (chk_attack_sim sh s sh' s' _ _ _ _ _ Hh Hs).
  rewrite (chk_attack_model vis_model s _ _ _ _ st hits s' o' G Hwf Hst Hacc Ep). cbn [Z.eqb].
  apply IH; [exact G1|apply Hs|exact Hr'|exact Hok].
Qed.

Corollary chk_C11_model_seq s0 ops : ginv s0 -> aops_ok s0 ops ->
  chk_aops s0 s0 ops (run_aops s0 ops) = 0.
Proof. intros G Hok. apply chk_aops_model; auto using hdr_refl, srel_refl. Qed.

Theorem run_chk_C11_model xin s0 xops ops :
  dec_grid_input xin = Some (s0, xops) -> all_some (map dec_aop xops) = Some ops ->
  ginv s0 -> aops_ok s0 ops ->
  run_chk_C11 (L [xin; run_attacks xin]) = A 1.
Proof.
  intros E1 E2 G Hok. unfold run_chk_C11, run_attacks. rewrite E1, E2.
  destruct (dec_enc_snapshot s0 s0 eq_refl eq_refl eq_refl eq_refl) as (sh & Ed & Hs). rewrite Ed.
  rewrite (cells_consistent_sim _ _ Hs), (ginv_cells_consistent s0 G). cbn [negb].
  rewrite (chk_aops_model ops s0 s0 sh G (proj1 Hs) (srel_refl s0) Hok). reflexivity.
Qed.

(* the clauses about the determined hits in the checker's own boolean form, all four actors *)
Theorem determine_limits_ok vis s cf att p o act st hits o1 :
  ginv s -> att_pos s att = Some p -> act_wf cf act ->
  determine vis s cf att p o act = AOk (st, hits) o1 ->
  limits_ok s cf att act hits = true /\ (c_stacked cf = false -> NoDup hits).
Proof.
  intros G Hp Hwf H. destruct (determine_facts vis s cf att p o act st hits o1 G Hp Hwf H) as (_ & _ & L & N).
  split; [apply limitsP_ok, L|exact N].
Qed.
