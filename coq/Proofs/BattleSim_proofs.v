(* The end-to-end instance: Grid/BattleSim.v's battle_sim is a `simulation`; the grid invariant of
   C03 is preserved by its step / reset / getters, its getters do not touch the grid (done_stable),
   hence the manager, history and trainer theorems proved for every simulation hold for it, and the
   invariant holds in every state any manager history reaches. *)
From Coq Require Import ZArith List Bool Arith Lia.
From Abm Require Import Base.Sx Grid.Overlap Grid.Grid Grid.Move Grid.Attack Grid.Vis Grid.AttackRun
  Grid.Observe Grid.Play Grid.BattleSim Ctl.Managers Ctl.Trainer
  Proofs.Grid_proofs Proofs.Overlap_proofs Proofs.Move_proofs Proofs.Attack_proofs Proofs.Play_proofs
  Proofs.GridChk_proofs Proofs.PlayChk_proofs Proofs.Managers_proofs Proofs.Managers_hist.
From Abm Require Proofs.Trainer_proofs Proofs.Member_proofs Proofs.AttackTotal_proofs.
From Abm Require Grid.Done.
Import ListNotations.
Open Scope Z_scope.

(* ---- what the getters and the third loop leave alone ------------------------------------------- *)
Lemma entropy_one_grid st ia : bs_grid (entropy_one st ia) = bs_grid st.
Proof. reflexivity. Qed.

Lemma bs_obs_frame cf st i :
  bs_grid (snd (bs_obs cf st i)) = bs_grid st /\ bs_starts (snd (bs_obs cf st i)) = bs_starts st /\
  bs_rew (snd (bs_obs cf st i)) = bs_rew st /\ bs_orc (snd (bs_obs cf st i)) = bs_orc st.
Proof.
  unfold bs_obs. destruct (nth_error (bc_agents cf) i) as [b|]; [|cbn; auto].
  destruct (obs_centered _ _ _ _ _ _); cbn; auto.
Qed.

Lemma bs_reward_frame st i :
  bs_grid (snd (bs_reward st i)) = bs_grid st /\ bs_starts (snd (bs_reward st i)) = bs_starts st /\
  bs_orc (snd (bs_reward st i)) = bs_orc st /\ bs_obsorc (snd (bs_reward st i)) = bs_obsorc st.
Proof. unfold bs_reward. destruct (nth_error (bs_rew st) i); cbn; auto. Qed.

Lemma attack_one_starts cf st ia : bs_starts (attack_one cf st ia) = bs_starts st.
Proof.
  unfold attack_one. destruct (agent (bs_grid st) (fst ia)) as [a|]; [|reflexivity].
  destruct (nth_error (bc_agents cf) (fst ia)) as [b|]; [|reflexivity].
  destruct (a_active a); [|reflexivity]. destruct (process_attack _ _ _ _ _ _); reflexivity.
Qed.

Lemma move_one_starts st ia : bs_starts (move_one st ia) = bs_starts st.
Proof.
  unfold move_one. destruct (agent (bs_grid st) (fst ia)) as [a|]; [|reflexivity].
  destruct (a_active a); [|reflexivity]. destruct (move_free _ _ _); reflexivity.
Qed.

Lemma fold_frame {X Y} (f : bstate -> X -> bstate) (g : bstate -> Y) :
  (forall st x, g (f st x) = g st) -> forall l st, g (fold_left f l st) = g st.
Proof.
  intros H l. induction l as [|x l IH]; intros st; cbn [fold_left]; [reflexivity|].
  rewrite IH. apply H.
Qed.

Lemma bs_step_starts cf st acts : bs_starts (bs_step cf st acts) = bs_starts st.
Proof.
  unfold bs_step. rewrite (fold_frame entropy_one bs_starts) by reflexivity.
  rewrite (fold_frame move_one bs_starts) by apply move_one_starts.
  apply (fold_frame (attack_one cf) bs_starts), attack_one_starts.
Qed.

(* effects of the getters only: the grid and the start-state stream are the same *)
Lemma greach_frame cf s s' :
  greach (battle_sim cf) s s' -> bs_grid s' = bs_grid s /\ bs_starts s' = bs_starts s.
Proof.
  induction 1 as [s|s s' a _ IH|s s' a _ IH]; [auto| |]; cbn [battle_sim sim_obs sim_reward] in IH.
  - destruct (bs_obs_frame cf s a) as (E1 & E2 & _). destruct IH as [I1 I2]. split; congruence.
  - destruct (bs_reward_frame s a) as (E1 & E2 & _). destruct IH as [I1 I2]. split; congruence.
Qed.

(* get_done / get_all_done read the grid only *)
Theorem battle_done_stable cf : done_stable (battle_sim cf).
Proof.
  intros s s' a G. destruct (greach_frame cf s s' G) as [E _].
  cbn [battle_sim sim_done]. unfold bs_done. rewrite E. reflexivity.
Qed.

Lemma battle_all_stable cf s s' : greach (battle_sim cf) s s' -> bs_all cf s' = bs_all cf s.
Proof. intros G. destruct (greach_frame cf s s' G) as [E _]. unfold bs_all. rewrite E. reflexivity. Qed.

(* the done flag is the negation of `active`, whichever of the two done components is configured *)
Lemma bs_done_spec cf st i a : agent (bs_grid st) i = Some a -> bs_done cf st i = negb (a_active a).
Proof.
  intros H. unfold bs_done, bs_dcomp, to_pop.
  assert (E : Done.active_done (map (fun a0 => Done.mkAgent (a_enc a0) (a_active a0) (a_pos a0))
                                    (g_agents (bs_grid st))) i = Some (negb (a_active a))).
  { unfold Done.active_done. unfold agent in H. rewrite nth_error_map, H. reflexivity. }
  destruct (bc_oneteam cf); cbn [Done.get_done]; rewrite E; reflexivity.
Qed.

(* ---- any property of the grid kept by the two actor models is kept by the whole simulation ----- *)
Section Preserved.
  Variable P : gstate -> Prop.
  Hypothesis P_attack : forall vis s cf att o act, P s ->
    match process_attack vis s cf att o act with POk _ _ s' _ => P s' | _ => True end.
  Hypothesis P_move : forall s i d, P s ->
    match move_by s i d with MOk _ s' => P s' | _ => True end.

  Definition bs_invP (st : bstate) : Prop := P (bs_grid st) /\ Forall P (bs_starts st).

  Lemma attack_one_P cf st ia : P (bs_grid st) -> P (bs_grid (attack_one cf st ia)).
  Proof.
    intros H. unfold attack_one. destruct (agent (bs_grid st) (fst ia)) as [a|]; [|exact H].
    destruct (nth_error (bc_agents cf) (fst ia)) as [b|]; [|exact H].
    destruct (a_active a); [|exact H].
    pose proof (P_attack vis_model (bs_grid st) (b_att b) (fst ia) (bs_orc st)
                         (ABinary (ba_attack (snd ia))) H) as H1.
    destruct (process_attack _ _ _ _ _ _); [exact H1|exact H|exact H].
  Qed.

  Lemma move_one_P st ia : P (bs_grid st) -> P (bs_grid (move_one st ia)).
  Proof.
    intros H. unfold move_one. destruct (agent (bs_grid st) (fst ia)) as [a|]; [|exact H].
    destruct (a_active a); [|exact H].
    pose proof (P_move (bs_grid st) (fst ia) (ba_move (snd ia)) H) as H1. unfold move_free.
    destruct (move_by _ _ _); [exact H1|exact H|exact H|exact H].
  Qed.

  Lemma fold_P {X} (f : bstate -> X -> bstate) :
    (forall st x, P (bs_grid st) -> P (bs_grid (f st x))) ->
    forall l st, P (bs_grid st) -> P (bs_grid (fold_left f l st)).
  Proof.
    intros H l. induction l as [|x l IH]; intros st Hs; cbn [fold_left]; [exact Hs|].
    apply IH, H, Hs.
  Qed.

  (* TeamBattleSim.step, every action dictionary, every oracle *)
  Theorem bs_step_P cf st acts : P (bs_grid st) -> P (bs_grid (bs_step cf st acts)).
  Proof.
    intros H. unfold bs_step.
    apply (fold_P entropy_one); [intros s x Hs; exact Hs|].
    apply (fold_P move_one); [apply move_one_P|].
    apply (fold_P (attack_one cf)); [apply attack_one_P|exact H].
  Qed.

  Lemma bs_step_invP cf st acts : bs_invP st -> bs_invP (bs_step cf st acts).
  Proof. intros [H1 H2]. split; [apply bs_step_P, H1|rewrite bs_step_starts; exact H2]. Qed.

  Lemma bs_reset_invP cf st : bs_invP st -> bs_invP (bs_reset cf st).
  Proof.
    intros [H1 H2]. unfold bs_reset. destruct (bs_starts st) as [|g0 rest]; split; cbn; auto.
    - inversion H2; assumption.
    - inversion H2; assumption.
  Qed.

  Lemma greach_invP cf s s' : greach (battle_sim cf) s s' -> bs_invP s -> bs_invP s'.
  Proof. intros G [H1 H2]. destruct (greach_frame cf s s' G) as [E1 E2]. split; congruence. Qed.

  (* one manager call, any manager, any call, in or out of protocol *)
  Lemma do_call_invP cf k m c r m' :
    do_call (battle_sim cf) k m c = (r, m') -> bs_invP (m_sim m) -> bs_invP (m_sim m').
  Proof.
    intros E H. destruct (do_call_sim_reach (battle_sim cf) k m c r m' E) as [Q|[Q|[l Q]]].
    - rewrite Q. exact H.
    - apply (greach_invP cf _ _ Q). apply bs_reset_invP, H.
    - apply (greach_invP cf _ _ Q). apply bs_step_invP, H.
  Qed.

  Theorem run_invP cf k cs : forall m,
    bs_invP (m_sim m) -> bs_invP (m_sim (snd (run (battle_sim cf) k m cs))).
  Proof.
    induction cs as [|c cs IH]; intros m H; cbn [run]; [exact H|].
    destruct (do_call (battle_sim cf) k m c) as [r m1] eqn:E.
    specialize (IH m1 (do_call_invP cf k m c r m1 E H)).
    destruct (run (battle_sim cf) k m1 cs) as [rs m2]. exact IH.
  Qed.

  (* every state a history passes through *)
  Theorem trace_invP cf k cs : forall m ph,
    bs_invP (m_sim m) ->
    forall e, In e (trace (battle_sim cf) k m ph cs) ->
      bs_invP (m_sim (te_pre e)) /\ bs_invP (m_sim (te_post e)).
  Proof.
    induction cs as [|c cs IH]; intros m ph H e He; cbn [trace] in He; [destruct He|].
    destruct (do_call (battle_sim cf) k m c) as [r m1] eqn:E.
    pose proof (do_call_invP cf k m c r m1 E H) as H1.
    destruct He as [<-|He]; [cbn; auto|]. exact (IH m1 _ H1 e He).
  Qed.

  Theorem run_snap_P cf k cs : forall m,
    bs_invP (m_sim m) -> Forall (fun rg => P (snd rg)) (fst (run_snap cf k m cs)).
  Proof.
    induction cs as [|c cs IH]; intros m H; cbn [run_snap]; [constructor|].
    destruct (do_call (battle_sim cf) k m c) as [r m1] eqn:E.
    pose proof (do_call_invP cf k m c r m1 E H) as H1. specialize (IH m1 H1).
    destruct (run_snap cf k m1 cs) as [rs m2]. cbn [fst snd] in *.
    constructor; [exact (proj1 H1)|exact IH].
  Qed.
End Preserved.

(* run_snap is the managers' run, plus the snapshots *)
Lemma run_snap_run cf k cs : forall m,
  map fst (fst (run_snap cf k m cs)) = fst (run (battle_sim cf) k m cs) /\
  snd (run_snap cf k m cs) = snd (run (battle_sim cf) k m cs).
Proof.
  induction cs as [|c cs IH]; intros m; cbn [run_snap run]; [auto|].
  destruct (do_call (battle_sim cf) k m c) as [r m1]. specialize (IH m1).
  destruct (run_snap cf k m1 cs) as [rs m2]. destruct (run (battle_sim cf) k m1 cs) as [rs' m2'].
  cbn [fst snd map] in *. destruct IH as [-> ->]. auto.
Qed.

(* ---- instances of P ------------------------------------------------------------------------------ *)
Lemma ginv_move s i d : ginv s -> match move_by s i d with MOk _ s' => ginv s' | _ => True end.
Proof. apply move_by_inv. Qed.

(* the C03 invariant *)
Theorem bs_step_ginv cf st acts : ginv (bs_grid st) -> ginv (bs_grid (bs_step cf st acts)).
Proof. apply (bs_step_P ginv process_attack_inv ginv_move). Qed.

(* the invariant, every active agent placed, and the dimensions / table of the grid *)
Definition dims (rows cols : Z) (ov : otable) (g : gstate) : Prop :=
  g_rows g = rows /\ g_cols g = cols /\ g_ov g = ov_symmetrise ov.
Definition good (rows cols : Z) (ov : otable) (g : gstate) : Prop :=
  ginv g /\ all_placed g /\ dims rows cols ov g.

Lemma good_srel rows cols ov s s' : srel s s' -> ginv s' -> good rows cols ov s -> good rows cols ov s'.
Proof.
  intros R G' (_ & Pl & D1 & D2 & D3). split; [exact G'|]. split.
  - apply all_placed_posd. apply (posd_srel s s' R). apply all_placed_posd, Pl.
  - destruct R as (R1 & R2 & R3 & _). unfold dims. repeat split; congruence.
Qed.

Lemma good_attack rows cols ov vis s cf att o act : good rows cols ov s ->
  match process_attack vis s cf att o act with POk _ _ s' _ => good rows cols ov s' | _ => True end.
Proof.
  intros H. pose proof (process_attack_inv vis s cf att o act (proj1 H)) as G.
  pose proof (srel_process_attack vis s cf att o act) as R.
  destruct (process_attack vis s cf att o act); [|exact I|exact I].
  apply (good_srel rows cols ov s s0 R G H).
Qed.

Lemma good_move rows cols ov s i d : good rows cols ov s ->
  match move_by s i d with MOk _ s' => good rows cols ov s' | _ => True end.
Proof.
  intros H. pose proof (move_by_inv s i d (proj1 H)) as G. pose proof (srel_move_by s i d) as R.
  destruct (move_by s i d); [|exact I|exact I|exact I].
  apply (good_srel rows cols ov s s0 R G H).
Qed.

Definition bs_inv : bstate -> Prop := bs_invP ginv.
Definition bs_good (rows cols : Z) (ov : otable) : bstate -> Prop := bs_invP (good rows cols ov).

(* reachable simulation states, every manager kind, every call list *)
Theorem battle_ginv_reachable cf k s0 cs :
  ginv (bs_grid s0) -> Forall ginv (bs_starts s0) ->
  ginv (bs_grid (m_sim (snd (run (battle_sim cf) k (init s0) cs)))) /\
  forall e, In e (trace (battle_sim cf) k (init s0) Fresh cs) ->
    ginv (bs_grid (m_sim (te_pre e))) /\ ginv (bs_grid (m_sim (te_post e))).
Proof.
  intros H1 H2. assert (H : bs_inv (m_sim (init s0))) by (split; assumption). split.
  - apply (run_invP ginv process_attack_inv ginv_move cf k cs (init s0) H).
  - intros e He.
    destruct (trace_invP ginv process_attack_inv ginv_move cf k cs (init s0) Fresh H e He) as [[A _] [B _]].
    auto.
Qed.

(* the simulation object before its first reset *)
Lemma bs_init_good rows cols ov starts o oo :
  NoDup (map fst ov) -> Forall (good rows cols ov) starts ->
  bs_good rows cols ov (bs_init rows cols ov starts o oo).
Proof.
  intros Hnd Hs. split; [|exact Hs]. cbn [bs_init bs_grid]. split; [|split].
  - apply ginv_empty; [intros a b; apply overlap_symmetric, Hnd|constructor|constructor].
  - intros a [].
  - unfold dims. cbn. auto.
Qed.

(* ---- the generic manager / trainer theorems, instantiated --------------------------------------- *)
Lemma battle_order cf : order (battle_sim cf) = seq 0 (length (bc_agents cf)).
Proof.
  unfold order, Managers.agents. cbn [battle_sim sim_n sim_learning].
  induction (seq 0 (length (bc_agents cf))) as [|x l IH]; [reflexivity|]. cbn. rewrite IH. reflexivity.
Qed.

Lemma battle_nonlearning cf : nonlearning (battle_sim cf) = [].
Proof.
  unfold nonlearning, Managers.agents. cbn [battle_sim sim_n sim_learning].
  induction (seq 0 (length (bc_agents cf))) as [|x l IH]; [reflexivity|]. cbn. exact IH.
Qed.

Theorem battle_done_once_turn cf s0 cs :
  in_protocol (trace (battle_sim cf) MTurn (init s0) Fresh cs) ->
  NoDup (ep_dones (trace (battle_sim cf) MTurn (init s0) Fresh cs) []).
Proof. apply once_turn, battle_done_stable. Qed.

Theorem battle_trainer_ok cf k : bc_agents cf <> [] -> k = MAll \/ k = MTurn ->
  Trainer_proofs.tk k /\ Trainer_proofs.sim_ok (battle_sim cf) k.
Proof.
  intros Hn Hk. split; [unfold Trainer_proofs.tk; tauto|]. unfold Trainer_proofs.sim_ok.
  split; [intros _; apply battle_done_stable|]. split.
  - intros ->. destruct Hk; discriminate.
  - intros _. rewrite battle_order. destruct (bc_agents cf); [congruence|discriminate].
Qed.

(* ---- the checker accepts the model's records ----------------------------------------------------- *)
Lemma dec_start_enc rows cols ov g : dims rows cols ov g ->
  exists sh, dec_start rows cols ov (enc_snapshot g) = Some sh /\ sim sh g.
Proof.
  intros (D1 & D2 & D3).
  set (s0 := {| g_rows := rows; g_cols := cols; g_ov := ov_symmetrise ov; g_agents := g_agents g;
                g_cells := [] |}).
  destruct (dec_enc_snapshot s0 g D1 D2 D3 eq_refl) as (sh & E & S). exists sh. split; [|exact S].
  unfold enc_snapshot, enc_cells in *. cbn [dec_snapshot] in E. cbn [dec_start].
  destruct (all_some (map dec_arec (map enc_arec (g_agents g)))) as [ags'|]; [|discriminate].
  destruct (all_some (map sxNats (map (fun p => ofNats (cell_get (g_cells g) p)) (all_cells g))))
    as [cs'|]; [|discriminate].
  change (all_cells (empty_grid rows cols ov [])) with (all_cells s0).
  destruct (Nat.eqb (length cs') (length (all_cells s0))); [|discriminate].
  destruct (Nat.eqb (length ags') (length (g_agents s0))); [|discriminate].
  cbn [andb] in E. exact E.
Qed.

Lemma chk_e2e_snaps_ok rows cols ov (rs : list (bresp * gstate)) :
  Forall (fun rg => good rows cols ov (snd rg)) rs ->
  chk_e2e_snaps rows cols ov (map enc_record rs) = 0.
Proof.
  induction 1 as [|rg rs (G & Pl & D) _ IH]; [reflexivity|]. cbn [map chk_e2e_snaps enc_record].
  destruct (dec_start_enc rows cols ov (snd rg) D) as (sh & -> & S).
  rewrite (ginvb_sim _ _ S), (ginvb_complete _ G Pl). cbn [Z.eqb]. exact IH.
Qed.

Lemma all_some_Forall {X Y} (f : X -> option Y) (Q : Y -> Prop) :
  (forall x y, f x = Some y -> Q y) -> forall l l', all_some (map f l) = Some l' -> Forall Q l'.
Proof.
  intros H l. induction l as [|x l IH]; intros l' E; cbn in E.
  - injection E as <-. constructor.
  - destruct (f x) as [y|] eqn:Ex; [|discriminate].
    destruct (all_some (map f l)) as [r|]; [|discriminate]. injection E as <-.
    constructor; [apply (H x y Ex)|apply IH; reflexivity].
Qed.

Lemma dec_start_dims rows cols ov x g : dec_start rows cols ov x = Some g -> dims rows cols ov g.
Proof.
  unfold dec_start. destruct x as [z|l]; [discriminate|].
  destruct l as [|[z|ags] l]; try discriminate. destruct l as [|[z|cs] l]; try discriminate.
  destruct l; [|discriminate].
  destruct (all_some (map dec_arec ags)); [|discriminate].
  destruct (all_some (map sxNats cs)); [|discriminate].
  destruct (Nat.eqb _ _); [|discriminate]. intros E. injection E as <-. unfold dims. cbn. auto.
Qed.

(* the wire-level statement: on every decodable input whose table has distinct keys and whose
   recorded start states satisfy the invariant with every active agent placed, and on which the
   oracle streams were admissible (flag not raised), the extracted checker answers 1 on the
   extracted model's own output *)
Theorem run_chk_e2e_model xin i :
  dec_e2e xin = Some i -> NoDup (map fst (ei_ov i)) ->
  Forall (fun g => ginv g /\ all_placed g) (bs_starts (ei_init i)) ->
  bs_bad (m_sim (snd (e2e_records i))) = false ->
  run_chk_e2e (L [xin; run_e2e xin]) = A 1.
Proof.
  intros E Hnd Hst Hbad. unfold run_chk_e2e, run_e2e. rewrite E.
  assert (Hgood : bs_good (ei_rows i) (ei_cols i) (ei_ov i) (ei_init i)).
  { unfold dec_e2e in E.
    destruct xin as [z|l]; [discriminate|].
    destruct l as [|[rows|?] l]; try discriminate. destruct l as [|[cols|?] l]; try discriminate.
    destruct l as [|xov l]; try discriminate. destruct l as [|xcf l]; try discriminate.
    destruct l as [|[?|sts] l]; try discriminate. destruct l as [|us l]; try discriminate.
    destruct l as [|[?|chs] l]; try discriminate. destruct l as [|ocs l]; try discriminate.
    destruct l as [|[kind|?] l]; try discriminate. destruct l as [|[?|cs] l]; try discriminate.
    destruct l; [|discriminate].
    destruct (dec_ov xov) as [ov'|]; [|discriminate].
    destruct (dec_bcfg xcf) as [cf'|]; [|discriminate].
    destruct (all_some (map (dec_start rows cols ov') sts)) as [sts'|] eqn:Es; [|discriminate].
    destruct (sxZs us) as [us'|]; [|discriminate].
    destruct (all_some (map sxNats chs)) as [chs'|]; [|discriminate].
    destruct (sxZs ocs) as [ocs'|]; [|discriminate].
    destruct (all_some (map dec_bcall cs)) as [cs'|]; [|discriminate].
    destruct ((rows <=? 0) || (cols <=? 0) || negb ((kind =? 0) || (kind =? 1))); [discriminate|].
    injection E as <-. cbn [ei_rows ei_cols ei_ov ei_init ei_cfg] in *.
    apply bs_init_good; [exact Hnd|].
    pose proof (all_some_Forall (dec_start rows cols ov') (dims rows cols ov')
                                (dec_start_dims rows cols ov') sts sts' Es) as Hd.
    cbn [bs_init bs_starts] in Hst. rewrite Forall_forall in *. intros g Hg.
    destruct (Hst g Hg) as [G Pl]. split; [exact G|]. split; [exact Pl|apply Hd, Hg]. }
  pose proof (run_snap_P (good (ei_rows i) (ei_cols i) (ei_ov i))
                         (good_attack _ _ _) (good_move _ _ _)
                         (ei_cfg i) (ei_kind i) (ei_calls i) (init (ei_init i)) Hgood) as Hrs.
  unfold e2e_records in *. destruct (run_snap (ei_cfg i) (ei_kind i) (init (ei_init i)) (ei_calls i)) as [rs m].
  cbn [fst snd] in *. rewrite Hbad. cbn [ofB]. cbn [Z.eqb negb].
  rewrite (chk_e2e_snaps_ok _ _ _ rs Hrs). reflexivity.
Qed.

(* ---- manager o simulation: what a reported done flag says about the grid ----------------------- *)
(* AllStepManager: every done entry of an accepted step is the negation of the agent's `active`
   flag in the grid the step leaves behind; a reported-done agent is in no cell *)
Theorem battle_all_done_entries cf m acts sh o m' :
  all_step (battle_sim cf) m acts sh = (ROut o, m') ->
  forall a b rec, In (a, b) (o_done o) -> agent (bs_grid (m_sim m')) a = Some rec ->
    b = negb (a_active rec) /\
    (b = true -> ginv (bs_grid (m_sim m')) ->
     forall p, ~ In a (cell_get (g_cells (bs_grid (m_sim m'))) p)).
Proof.
  intros H a b rec Hin Hrec.
  destruct (existsb (fun kv => memb (fst kv) (m_done m)) acts) eqn:E.
  - rewrite (all_step_reject (battle_sim cf) m acts sh E) in H. discriminate.
  - destruct (all_step_accept (battle_sim cf) m acts sh E) as (o1 & m1 & E1 & _ & _ & _ & _ & _ & Hd).
    rewrite E1 in H. injection H as <- <-. rewrite Hd in Hin. apply in_map_iff in Hin.
    destruct Hin as (a' & Ea & _). injection Ea as <- <-.
    cbn [battle_sim sim_done]. rewrite (bs_done_spec cf _ _ rec Hrec). split; [reflexivity|].
    intros Hb G p Hp. destruct (gi_cell_agent _ _ G p a' Hp) as (rec' & Hr' & Hact & _).
    assert (rec' = rec) by congruence. subst rec'. rewrite Hact in Hb. discriminate.
Qed.

(* TurnBasedManager, simulation not finished: the same for every entry the turn search reports *)
Theorem battle_turn_done_entries cf m acts o m' :
  tinv (battle_sim cf) m -> turn_step (battle_sim cf) m acts = (ROut o, m') ->
  bs_all cf (bs_step cf (m_sim m) acts) = false ->
  forall a b rec, In (a, b) (o_done o) -> agent (bs_grid (m_sim m')) a = Some rec ->
    b = negb (a_active rec) /\
    (b = true -> ginv (bs_grid (m_sim m')) ->
     forall p, ~ In a (cell_get (g_cells (bs_grid (m_sim m'))) p)).
Proof.
  intros T H Hall a b rec Hin Hrec.
  destruct (turn_step_cases (battle_sim cf) m acts T) as [[_ E]|[[_ E]|(_ & _ & o1 & m1 & E & B & _)]];
    rewrite E in H; try discriminate. injection H as <- <-.
  assert (Hb : b = bs_done cf (m_sim m1) a).
  { destruct B as [Ha|ks Hs SP]; [cbn [battle_sim sim_all sim_step] in Ha; congruence|].
    destruct (sp_entries _ _ _ _ _ _ _ _ _ SP) as (dl & Ed & _ & Hv & _).
    cbn [empty_out o_done app] in Ed. rewrite Ed in Hin.
    rewrite (Hv (battle_done_stable cf) a b Hin).
    symmetry. apply (battle_done_stable cf _ _ a (sp_greach _ _ _ _ _ _ _ _ _ SP)). }
  rewrite (bs_done_spec cf _ _ rec Hrec) in Hb. split; [exact Hb|].
  intros Hb1 G p Hp. destruct (gi_cell_agent _ _ G p a Hp) as (rec' & Hr' & Hact & _).
  assert (rec' = rec) by congruence. subst rec'. rewrite Hact in Hb. rewrite Hb in Hb1. discriminate.
Qed.

(* ---- the per-step clauses along in-protocol histories, done_stable discharged ------------------- *)
Theorem battle_steps_turn cf s0 cs :
  in_protocol (trace (battle_sim cf) MTurn (init s0) Fresh cs) ->
  forall e acts sh, In e (trace (battle_sim cf) MTurn (init s0) Fresh cs) -> te_call e = CStep acts sh ->
    match te_resp e with
    | ROut o =>
        wfo o /\ NoDup (keys o) /\ (forall a, In a (keys o) -> ~ In a (m_done (te_pre e))) /\
        ~ submits_done (m_done (te_pre e)) acts /\ incl (m_done (te_pre e)) (m_done (te_post e)) /\
        greach (battle_sim cf) (bs_step cf (m_sim (te_pre e)) acts) (m_sim (te_post e)) /\
        o_all o = bs_all cf (bs_step cf (m_sim (te_pre e)) acts)
                  || all_in (battle_sim cf) (m_done (te_post e)) /\
        (o_all o = false -> forall a, In (a, true) (o_done o) -> In a (m_done (te_post e)))
    | RObs _ => False
    | _ => te_post e = te_pre e
    end.
Proof.
  intros Hp e acts sh He Hc. pose proof (steps_ok_turn (battle_sim cf) s0 cs Hp e acts sh He Hc) as H.
  destruct (te_resp e); auto. destruct H as (H1 & H2 & H3 & H4 & H5 & H6 & H7 & H8).
  split; [exact H1|]. split; [exact H2|]. split; [exact H3|]. split; [exact H4|].
  split; [exact H5|]. split; [exact H6|]. split; [exact H7|]. apply H8, battle_done_stable.
Qed.

(* turn-based histories: the manager invariant wherever a step may be made, the grid invariant
   everywhere, and each entry is the manager's call in that state *)
Theorem battle_invariants_turn cf s0 cs :
  ginv (bs_grid s0) -> Forall ginv (bs_starts s0) ->
  in_protocol (trace (battle_sim cf) MTurn (init s0) Fresh cs) ->
  forall e, In e (trace (battle_sim cf) MTurn (init s0) Fresh cs) ->
    (te_ph e = Live -> tinv (battle_sim cf) (te_pre e)) /\
    ginv (bs_grid (m_sim (te_pre e))) /\ ginv (bs_grid (m_sim (te_post e))) /\
    do_call (battle_sim cf) MTurn (te_pre e) (te_call e) = (te_resp e, te_post e).
Proof.
  intros G Gs Hp e He.
  destruct (hist_inv_turn (battle_sim cf) s0 cs Hp e He) as (_ & _ & T & D).
  destruct (proj2 (battle_ginv_reachable cf MTurn s0 cs G Gs) e He) as [A B]. auto.
Qed.

Theorem battle_invariants_all cf s0 cs :
  ginv (bs_grid s0) -> Forall ginv (bs_starts s0) ->
  in_protocol (trace (battle_sim cf) MAll (init s0) Fresh cs) ->
  forall e, In e (trace (battle_sim cf) MAll (init s0) Fresh cs) ->
    ginv (bs_grid (m_sim (te_pre e))) /\ ginv (bs_grid (m_sim (te_post e))) /\
    do_call (battle_sim cf) MAll (te_pre e) (te_call e) = (te_resp e, te_post e) /\
    NoDup (ep_dones (trace (battle_sim cf) MAll (init s0) Fresh cs) []).
Proof.
  intros G Gs Hp e He.
  destruct (hist_inv_all (battle_sim cf) s0 cs Hp e He) as (_ & D).
  destruct (proj2 (battle_ginv_reachable cf MAll s0 cs G Gs) e He) as [A B].
  split; [exact A|]. split; [exact B|]. split; [exact D|]. apply once_all, Hp.
Qed.

(* the trainer's episode generation over the battle simulation never fails (C16), all-step and
   turn-based managers *)
Theorem battle_trainer_never_fails PS cf pmap (pol_act : PS -> nat -> list (list Z) -> bact * PS)
        pol_reset shuf h k m ps :
  bc_agents cf <> [] -> k = MAll \/ k = MTurn ->
  er_status (generate_episode (battle_sim cf) pmap pol_act pol_reset shuf h k m ps) = EOk /\
  exists obs, er_reset (generate_episode (battle_sim cf) pmap pol_act pol_reset shuf h k m ps) = RObs obs.
Proof.
  intros Hn Hk. destruct (battle_trainer_ok cf k Hn Hk) as [T S].
  apply Trainer_proofs.never_fails; assumption.
Qed.

(* ---- non-vacuity: 3x3 grid, agent 0 (team 1) kills agent 1 (team 2), agent 2 walks into the wall -- *)
Definition e2_ag (e : Z) (p : cell) : arec :=
  {| a_enc := e; a_pos := Some p; a_health := HD; a_active := true; a_ammo := None;
     a_orient := None; a_blocking := false |}.
Definition e2_start : gstate := init_state 3 3 [] [e2_ag 1 (1, 1); e2_ag 2 (1, 2); e2_ag 2 (0, 0)].
Definition e2_b (mp : list Z) : bagent :=
  {| b_att := {| c_range := 1; c_strength := HD; c_accuracy := HD; c_simul := 1; c_mapping := mp;
                 c_stacked := false |};
     b_view := 1 |}.
Definition e2_cf : bcfg :=
  {| bc_agents := [e2_b [2]; e2_b [1]; e2_b [1]]; bc_self := true; bc_oneteam := false |}.
Definition e2_a0 : nat * bact := (0%nat, {| ba_move := (0, 0); ba_attack := 1 |}).
Definition e2_acts : list (nat * bact) :=
  [e2_a0; (1%nat, {| ba_move := (0, -1); ba_attack := 0 |});
   (2%nat, {| ba_move := (-1, 0); ba_attack := 0 |})].
Definition e2_s0 (oo : list Z) : bstate :=
  bs_init 3 3 [] [e2_start] {| o_unif := [0; 0]; o_choice := [[1%nat]] |} oo.

Lemma e2_start_good : good 3 3 [] e2_start.
Proof.
  split; [|split].
  - apply init_state_inv.
    + intros a b. reflexivity.
    + apply (forallb_Forall vitals_okb); [exact vitals_okb_ok|reflexivity].
    + apply (forallb_Forall a_active); [auto|reflexivity].
    + apply (forallb_Forall (fun a => match a_pos a with
                                      | Some q => (0 <=? fst q) && (fst q <? 3) && (0 <=? snd q) && (snd q <? 3)
                                      | None => true end)); [|reflexivity].
      intros x. destruct (a_pos x); auto.
  - apply all_placed_b. reflexivity.
  - unfold dims. repeat split; reflexivity.
Qed.

Definition e2_out_all : list bresp :=
  [RObs [(0%nat, [[2; 0; 0]; [0; 1; 2]; [0; 0; 0]]); (1%nat, [[0; 0; -1]; [1; 2; -1]; [0; 0; -1]]);
         (2%nat, [[-1; -1; -1]; [-1; 2; 0]; [-1; 0; 1]])];
   ROut {| o_obs := [(0%nat, [[2; 0; 0]; [0; 1; 0]; [0; 0; 0]]); (1%nat, [[0; 0; -1]; [1; 0; -1]; [0; 0; -1]]);
                     (2%nat, [[-1; -1; -1]; [-1; 2; 0]; [-1; 0; 1]])];
           o_rew := [(0%nat, 99); (1%nat, -101); (2%nat, -11)];
           o_done := [(0%nat, false); (1%nat, true); (2%nat, false)];
           o_info := [(0%nat, tt); (1%nat, tt); (2%nat, tt)]; o_all := false |}].

Lemma e2_nonvacuous :
  bs_good 3 3 [] (e2_s0 [2; 1; 2; 1; 2; 2; 1; 2; 1; 1; 2; 1]) /\
  (let r := run_snap e2_cf MAll (init (e2_s0 [2; 1; 2; 1; 2; 2; 1; 2; 1; 1; 2; 1]))
                     [CReset; CStep e2_acts e2_acts] in
   map fst (fst r) = e2_out_all /\ bs_bad (m_sim (snd r)) = false /\ m_done (snd r) = [1%nat] /\
   map (fun rg => ginvb (snd rg)) (fst r) = [0; 0] /\
   cell_get (g_cells (bs_grid (m_sim (snd r)))) (1, 2) = []) /\
  (* turn-based: agent 0 kills agent 1 on its turn; the search reports agent 1 (newly done)
     and gives the turn to agent 2 *)
  (let r := run_snap e2_cf MTurn (init (e2_s0 [2; 1; 2; 1; 2; 1])) [CReset; CStep [e2_a0] []] in
   in_protocol (trace (battle_sim e2_cf) MTurn (init (e2_s0 [2; 1; 2; 1; 2; 1])) Fresh
                      [CReset; CStep [e2_a0] []]) /\
   map fst (fst r) =
     [RObs [(0%nat, [[2; 0; 0]; [0; 1; 2]; [0; 0; 0]])];
      ROut {| o_obs := [(1%nat, [[0; 0; -1]; [1; 0; -1]; [0; 0; -1]]); (2%nat, [[-1; -1; -1]; [-1; 2; 0]; [-1; 0; 1]])];
              o_rew := [(1%nat, -100); (2%nat, 0)]; o_done := [(1%nat, true); (2%nat, false)];
              o_info := [(1%nat, tt); (2%nat, tt)]; o_all := false |}] /\
   bs_bad (m_sim (snd r)) = false /\ m_done (snd r) = [1%nat] /\ m_ptr (snd r) = 0%nat).
Proof.
  split; [|split].
  - apply bs_init_good; [constructor|]. constructor; [exact e2_start_good|constructor].
  - vm_compute. repeat split; reflexivity.
  - cbv zeta. split; [apply in_protocolb_ok; vm_compute; reflexivity|]. vm_compute. repeat split; reflexivity.
Qed.

(* ---- the error arms of the loop bodies are unreachable ------------------------------------------- *)
(* wfn n g: the invariant, every active agent placed, n agents *)
Definition wfn (n : nat) (g : gstate) : Prop := ginv g /\ all_placed g /\ length (g_agents g) = n.

Lemma wfn_srel n s s' : srel s s' -> ginv s' -> wfn n s -> wfn n s'.
Proof.
  intros R G' (_ & Pl & Hn). split; [exact G'|]. split.
  - apply all_placed_posd. apply (posd_srel s s' R). apply all_placed_posd, Pl.
  - destruct R as (_ & _ & _ & R4 & _). congruence.
Qed.

Lemma wfn_attack n vis s cf att o act : wfn n s ->
  match process_attack vis s cf att o act with POk _ _ s' _ => wfn n s' | _ => True end.
Proof.
  intros H. pose proof (process_attack_inv vis s cf att o act (proj1 H)) as G.
  pose proof (srel_process_attack vis s cf att o act) as R.
  destruct (process_attack vis s cf att o act); [|exact I|exact I]. apply (wfn_srel n s s0 R G H).
Qed.

Lemma wfn_move n s i d : wfn n s -> match move_by s i d with MOk _ s' => wfn n s' | _ => True end.
Proof.
  intros H. pose proof (move_by_inv s i d (proj1 H)) as G. pose proof (srel_move_by s i d) as R.
  destruct (move_by s i d); [|exact I|exact I|exact I]. apply (wfn_srel n s s0 R G H).
Qed.

(* For a simulation state with the invariant, every active agent placed and as many agents as the
   configuration lists, and a key naming one of them: both loop bodies keep these facts; the move
   never takes an error arm (MoveActor returns a result for every offset); the attack raises the
   flag only where the model reports an inadmissible / missing recorded draw *)
Theorem battle_no_error_arms cf st ia :
  wfn (length (bc_agents cf)) (bs_grid st) -> (fst ia < length (bc_agents cf))%nat ->
  wfn (length (bc_agents cf)) (bs_grid (attack_one cf st ia)) /\
  wfn (length (bc_agents cf)) (bs_grid (move_one st ia)) /\
  bs_bad (move_one st ia) = bs_bad st /\
  (bs_bad (attack_one cf st ia) = bs_bad st \/
   exists b, nth_error (bc_agents cf) (fst ia) = Some b /\
     process_attack vis_model (bs_grid st) (b_att b) (fst ia) (bs_orc st)
                    (ABinary (ba_attack (snd ia))) = PBadOracle).
Proof.
  intros W Hi. set (n := length (bc_agents cf)) in *.
  split; [apply (attack_one_P (wfn n) (wfn_attack n)), W|].
  split; [apply (move_one_P (wfn n) (wfn_move n)), W|].
  destruct W as (G & Pl & Hn).
  assert (Ha : exists a, agent (bs_grid st) (fst ia) = Some a).
  { unfold agent. destruct (nth_error (g_agents (bs_grid st)) (fst ia)) as [a|] eqn:E; [eauto|].
    apply nth_error_None in E. lia. }
  destruct Ha as (a & Ha).
  assert (Hb : exists b, nth_error (bc_agents cf) (fst ia) = Some b).
  { destruct (nth_error (bc_agents cf) (fst ia)) as [b|] eqn:E; [eauto|].
    apply nth_error_None in E. unfold n in Hi. lia. }
  destruct Hb as (b & Hb).
  assert (Hp : a_active a = true -> exists p, a_pos a = Some p).
  { intros Hact. apply Pl; [|exact Hact]. unfold agent in Ha. apply nth_error_In in Ha. exact Ha. }
  split.
  - unfold move_one. rewrite Ha. destruct (a_active a) eqn:Hact; [|reflexivity].
    destruct (Hp eq_refl) as (p & Hpos).
    destruct (Member_proofs.move_actions_total (bs_grid st) (fst ia) a p G Ha Hact Hpos) as (T & _).
    destruct (T (ba_move (snd ia))) as (r & s' & -> & _). reflexivity.
  - unfold attack_one. rewrite Ha, Hb. destruct (a_active a) eqn:Hact; [|left; reflexivity].
    destruct (Hp eq_refl) as (p & Hpos).
    pose proof (AttackTotal_proofs.process_attack_no_error vis_model (bs_grid st) (b_att b) (fst ia) a p
                  (bs_orc st) (ABinary (ba_attack (snd ia))) Ha Hpos) as NE.
    destruct (process_attack vis_model (bs_grid st) (b_att b) (fst ia) (bs_orc st)
                             (ABinary (ba_attack (snd ia)))) eqn:Ep.
    + left. reflexivity.
    + right. exists b. split; [reflexivity|exact Ep].
    + congruence.
Qed.

(* ---- the tree as found: two hits in one step raise (findings/C02-binary-attack-ndarray) ---------- *)
Definition f13_b : bagent :=
  {| b_att := {| c_range := 1; c_strength := HD; c_accuracy := HD; c_simul := 2; c_mapping := [2];
                 c_stacked := false |};
     b_view := 1 |}.
Definition f13_cf : bcfg := {| bc_agents := [f13_b; e2_b [1]; e2_b [1]]; bc_self := true; bc_oneteam := false |}.
Definition f13_st : bstate :=
  {| bs_grid := e2_start; bs_rew := [0; 0; 0]; bs_starts := [];
     bs_orc := {| o_unif := [0; 0]; o_choice := [[2%nat; 1%nat]] |}; bs_obsorc := []; bs_bad := false |}.
Definition f13_acts : list (nat * bact) := [(0%nat, {| ba_move := (0, 0); ba_attack := 2 |})].

Theorem multi_attack_prefix_refuted :
  exists cf st acts,
    wfn (length (bc_agents cf)) (bs_grid st) /\ bs_bad st = false /\
    (* the model of the code as found flags the step (the ValueError of `not ndarray`) ... *)
    bs_bad (bs_step_prefix cf st acts) = true /\
    (* ... the documented behaviour (a list is returned) does not, and books +2 / -1 / -1 *)
    bs_bad (bs_step cf st acts) = false /\ bs_rew (bs_step cf st acts) = [199; -100; -100].
Proof.
  exists f13_cf, f13_st, f13_acts. split; [|vm_compute; repeat split; reflexivity].
  destruct e2_start_good as (G & Pl & _). split; [exact G|]. split; [exact Pl|reflexivity].
Qed.
