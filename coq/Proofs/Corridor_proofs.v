(* Proofs about Ctl/Corridor.v: the MultiCorridor simulation as an instance of the abstract
   simulation, its invariant, the purity of its done getters, the C01 / C07 / C08 / C16 theorems
   instantiated, the error arm under the managers' protocol, and the wrapper stacks of Ctl/Stack.v
   over it. *)
From Coq Require Import ZArith List Bool Arith Lia.
From Abm Require Import Base.Sx Spaces.Space Spaces.Ravel Spaces.Flatten Ctl.Managers Ctl.ScriptSim
     Ctl.MgrCheck Ctl.Super Ctl.Comms Ctl.Wrappers Ctl.Stack Ctl.Trainer Ctl.Corridor.
From Abm Require Import Proofs.Managers_proofs Proofs.Managers_hist Proofs.Stack_proofs.
From Abm Require Proofs.Trainer_proofs Proofs.Reset_proofs.
Import ListNotations.
Open Scope Z_scope.

(* ---- lists ----------------------------------------------------------------------------------- *)
Lemma lset_length {X} (l : list X) : forall i v, length (lset l i v) = length l.
Proof. induction l as [|x l IH]; intros [|i] v; cbn; auto. Qed.

Lemma nth_error_lset_same {X} (l : list X) : forall i v, (i < length l)%nat ->
  nth_error (lset l i v) i = Some v.
Proof.
  induction l as [|x l IH]; intros [|i] v H; cbn in *; try lia; [reflexivity|].
  apply IH. lia.
Qed.

Lemma nth_error_lset_other {X} (l : list X) : forall i j v, i <> j ->
  nth_error (lset l i v) j = nth_error l j.
Proof.
  induction l as [|x l IH]; intros [|i] [|j] v H; cbn; try reflexivity; try congruence.
  apply IH. congruence.
Qed.

Lemma zmemb_In z l : zmemb z l = true <-> In z l.
Proof.
  induction l as [|y l IH]; cbn; [split; [discriminate|tauto]|].
  rewrite orb_true_iff, IH, Z.eqb_eq. split; intros [H|H]; auto.
Qed.

Lemma znodupb_NoDup l : znodupb l = true -> NoDup l.
Proof.
  induction l as [|z l IH]; cbn; [constructor|]. rewrite andb_true_iff, negb_true_iff.
  intros [H1 H2]. constructor; [|apply IH, H2]. intros Hin. apply zmemb_In in Hin. congruence.
Qed.

(* ---- the array, by Z index -------------------------------------------------------------------- *)
Definition acell (arr : list (option nat)) (c : Z) : option (option nat) :=
  if c <? 0 then None else nth_error arr (Z.to_nat c).

Lemma cell_acell s c : cell s c = acell (co_arr s) c.
Proof. reflexivity. Qed.

Lemma acell_range arr c : 0 <= c < Z.of_nat (length arr) -> exists x, acell arr c = Some x.
Proof.
  intros H. unfold acell. destruct (c <? 0) eqn:E; [lia|].
  destruct (nth_error arr (Z.to_nat c)) eqn:En; [eauto|]. apply nth_error_None in En. lia.
Qed.

Lemma acell_some arr c x : acell arr c = Some x -> 0 <= c < Z.of_nat (length arr).
Proof.
  unfold acell. destruct (c <? 0) eqn:E; [discriminate|]. intros H.
  assert (Hn : nth_error arr (Z.to_nat c) <> None) by congruence. apply nth_error_Some in Hn. lia.
Qed.

Lemma acell_lset arr c0 v c : 0 <= c0 < Z.of_nat (length arr) ->
  acell (lset arr (Z.to_nat c0) v) c = if c =? c0 then Some v else acell arr c.
Proof.
  intros H. unfold acell. destruct (c =? c0) eqn:E.
  - apply Z.eqb_eq in E. subst c. destruct (c0 <? 0) eqn:E0; [lia|].
    apply nth_error_lset_same. lia.
  - apply Z.eqb_neq in E. destruct (c <? 0) eqn:E0; [reflexivity|].
    apply nth_error_lset_other. lia.
Qed.

Lemma arr_set_spec arr c v a' : arr_set arr c v = Some a' ->
  0 <= c < Z.of_nat (length arr) /\ length a' = length arr /\
  forall c', acell a' c' = if c' =? c then Some v else acell arr c'.
Proof.
  unfold arr_set. destruct ((c <? 0) || (Z.of_nat (length arr) <=? c)) eqn:E; [discriminate|].
  intros H. injection H as <-. apply orb_false_iff in E. destruct E as [E1 E2].
  assert (R : 0 <= c < Z.of_nat (length arr)) by lia.
  split; [exact R|]. split; [apply lset_length|]. intros c'. apply acell_lset, R.
Qed.

Lemma arr_set_ok arr c v : 0 <= c < Z.of_nat (length arr) -> exists a', arr_set arr c v = Some a'.
Proof.
  intros H. unfold arr_set. destruct ((c <? 0) || (Z.of_nat (length arr) <=? c)) eqn:E; [|eauto].
  apply orb_true_iff in E. lia.
Qed.

(* ---- the invariant ----------------------------------------------------------------------------
   n positions inside the corridor, n reward entries, end cells; a cell names agent j exactly when
   j stands there and has not arrived (so: the agents that have not arrived stand in distinct
   cells, the array holds exactly them, an arrived agent is in no cell) *)
Definition cinv (cend : Z) (n : nat) (s : cstate) : Prop :=
  length (co_pos s) = n /\ length (co_rew s) = n /\ length (co_arr s) = Z.to_nat cend /\
  (forall i p, nth_error (co_pos s) i = Some p -> 0 <= p <= cend - 1) /\
  (forall c j, acell (co_arr s) c = Some (Some j) <->
               (nth_error (co_pos s) j = Some c /\ c < cend - 1)).

Theorem cinv_readable cend n s : cinv cend n s ->
  (forall i, (i < n)%nat -> exists p r, nth_error (co_pos s) i = Some p /\ 0 <= p <= cend - 1 /\
                                        nth_error (co_rew s) i = Some r) /\
  (forall i j p, nth_error (co_pos s) i = Some p -> nth_error (co_pos s) j = Some p ->
                 p < cend - 1 -> i = j) /\
  (forall j p, nth_error (co_pos s) j = Some p -> p < cend - 1 -> cell s p = Some (Some j)) /\
  (forall j, nth_error (co_pos s) j = Some (cend - 1) -> forall c, cell s c <> Some (Some j)) /\
  (forall c j, cell s c = Some (Some j) -> nth_error (co_pos s) j = Some c /\ 0 <= c < cend - 1).
Proof.
  intros (L1 & L2 & L3 & R & A). repeat split.
  - intros i Hi.
    destruct (nth_error (co_pos s) i) as [p|] eqn:Ep; [|apply nth_error_None in Ep; lia].
    destruct (nth_error (co_rew s) i) as [r|] eqn:Er; [|apply nth_error_None in Er; lia].
    exists p, r. split; [reflexivity|]. split; [apply (R i p Ep)|reflexivity].
  - intros i j p Hi Hj Hp.
    pose proof (proj2 (A p i) (conj Hi Hp)) as Ci. pose proof (proj2 (A p j) (conj Hj Hp)) as Cj.
    congruence.
  - intros j p Hj Hp. rewrite cell_acell. apply A. auto.
  - intros j Hj c Hc. rewrite cell_acell in Hc. apply A in Hc. destruct Hc as [Hc1 Hc2].
    rewrite Hj in Hc1. injection Hc1 as <-. lia.
  - rewrite cell_acell in H. apply A in H. tauto.
  - rewrite cell_acell in H. pose proof (proj1 (A c j) H) as [Hp _]. apply (R j c Hp).
  - rewrite cell_acell in H. apply A in H. tauto.
Qed.

Lemma cinv_set_bad cend n s : cinv cend n s -> cinv cend n (set_bad s).
Proof. intros H. exact H. Qed.

Lemma cinv_with_rew cend n s r : length r = n -> cinv cend n s -> cinv cend n (with_rew s r).
Proof.
  intros Hl (L1 & L2 & L3 & R & A).
  split; [exact L1|]. split; [exact Hl|]. split; [exact L3|]. split; [exact R|exact A].
Qed.

Lemma cinv_add_rew cend n s i d : cinv cend n s -> cinv cend n (add_rew s i d).
Proof.
  intros H. unfold add_rew. destruct (co_bad s); [exact H|].
  destruct (nth_error (co_rew s) i) as [r|]; [|exact H].
  apply cinv_with_rew; [|exact H]. rewrite lset_length. apply H.
Qed.

(* frame facts of add_rew *)
Lemma add_rew_pos s i d : co_pos (add_rew s i d) = co_pos s.
Proof. unfold add_rew. destruct (co_bad s); [reflexivity|]. destruct (nth_error _ _); reflexivity. Qed.
Lemma add_rew_arr s i d : co_arr (add_rew s i d) = co_arr s.
Proof. unfold add_rew. destruct (co_bad s); [reflexivity|]. destruct (nth_error _ _); reflexivity. Qed.
Lemma add_rew_draws s i d : co_draws (add_rew s i d) = co_draws s /\ co_ep (add_rew s i d) = co_ep s.
Proof. unfold add_rew. destruct (co_bad s); [auto|]. destruct (nth_error _ _); auto. Qed.
Lemma add_rew_len s i d : length (co_rew (add_rew s i d)) = length (co_rew s).
Proof.
  unfold add_rew. destruct (co_bad s); [reflexivity|]. destruct (nth_error _ _); [|reflexivity].
  cbn. apply lset_length.
Qed.
Lemma add_rew_bad s i d : (i < length (co_rew s))%nat -> co_bad (add_rew s i d) = co_bad s.
Proof.
  intros H. unfold add_rew. destruct (co_bad s) eqn:E; [exact E|].
  destruct (nth_error (co_rew s) i) eqn:En; [exact E|]. apply nth_error_None in En. lia.
Qed.

(* ---- reset ------------------------------------------------------------------------------------ *)
Definition adm (cend : Z) (n : nat) (d : list Z) : Prop :=
  length d = n /\ (forall c, In c d -> 0 <= c < cend - 1) /\ NoDup d.

Lemma admb_adm cend n d : admb cend n d = true -> adm cend n d.
Proof.
  unfold admb. rewrite !andb_true_iff. intros [[H1 H2] H3]. split; [apply Nat.eqb_eq, H1|].
  split; [|apply znodupb_NoDup, H3]. intros c Hc. rewrite forallb_forall in H2.
  specialize (H2 c Hc). apply andb_true_iff in H2. lia.
Qed.

Lemma nth_error_dec (d : list Z) z :
  (exists k, nth_error d k = Some z) \/ (forall k, nth_error d k <> Some z).
Proof.
  induction d as [|y d IH].
  - right. intros [|k]; discriminate.
  - destruct (Z.eq_dec y z) as [->|N]; [left; exists O; reflexivity|].
    destruct IH as [[k Hk]|Hn]; [left; exists (S k); exact Hk|]. right.
    intros [|k]; cbn; [congruence|apply Hn].
Qed.

Lemma place_spec d : forall i arr, (forall c, In c d -> 0 <= c < Z.of_nat (length arr)) -> NoDup d ->
  length (place arr i d) = length arr /\
  forall c, (forall k, nth_error d k = Some c -> acell (place arr i d) c = Some (Some (i + k)%nat)) /\
            ((forall k, nth_error d k <> Some c) -> acell (place arr i d) c = acell arr c).
Proof.
  induction d as [|c0 d IH]; intros i arr Hr Hn; cbn [place].
  - split; [reflexivity|]. intros c. split; [intros [|k]; discriminate|reflexivity].
  - inversion Hn as [|? ? Hnot Hn']; subst.
    assert (R0 : 0 <= c0 < Z.of_nat (length arr)) by (apply Hr; left; reflexivity).
    destruct (IH (S i) (lset arr (Z.to_nat c0) (Some i))) as [Len IHc].
    { intros c Hc. rewrite lset_length. apply Hr. right. exact Hc. }
    { exact Hn'. }
    split; [rewrite Len; apply lset_length|].
    intros c. destruct (IHc c) as [I1 I2]. split.
    + intros [|k] Hk; cbn in Hk.
      * injection Hk as ->. rewrite I2.
        -- rewrite acell_lset by exact R0. rewrite Z.eqb_refl. f_equal. f_equal. lia.
        -- intros k Hk. apply Hnot. eapply nth_error_In. exact Hk.
      * rewrite (I1 k Hk). f_equal. f_equal. lia.
    + intros Hnone. rewrite I2.
      * rewrite acell_lset by exact R0. destruct (c =? c0) eqn:E; [|reflexivity].
        apply Z.eqb_eq in E. subst c. exfalso. apply (Hnone O). reflexivity.
      * intros k Hk. apply (Hnone (S k)). exact Hk.
Qed.

Lemma acell_repeat_none len c x : acell (repeat None len) c = Some x -> x = None.
Proof.
  unfold acell. destruct (c <? 0); [discriminate|]. intros H. apply nth_error_In in H.
  apply repeat_spec in H. exact H.
Qed.

(* every successful reset, from ANY state, establishes the invariant, clears the flag, zeroes the
   reward table and puts everybody on a cell before the last one *)
Theorem co_reset_ok cend n s : adm cend n (co_draws s (co_ep s)) ->
  cinv cend n (co_reset cend n s) /\ co_bad (co_reset cend n s) = false /\
  co_pos (co_reset cend n s) = co_draws s (co_ep s) /\ co_rew (co_reset cend n s) = repeat 0 n /\
  (forall i, co_done cend (co_reset cend n s) i = false) /\
  co_draws (co_reset cend n s) = co_draws s /\ co_ep (co_reset cend n s) = S (co_ep s).
Proof.
  intros Ha. pose proof Ha as (A1 & A2 & A3). unfold co_reset.
  destruct (admb cend n (co_draws s (co_ep s))) eqn:E.
  2:{ exfalso. unfold admb in E. rewrite A1, Nat.eqb_refl in E. cbn [andb] in E.
      apply andb_false_iff in E. destruct E as [E|E].
      - apply Bool.not_true_iff_false in E. apply E. apply forallb_forall. intros c Hc.
        specialize (A2 c Hc). apply andb_true_iff. lia.
      - clear - E A3. induction A3 as [|z l Hn Hd IH]; cbn in E; [discriminate|].
        apply andb_false_iff in E. destruct E as [E|E]; [|auto].
        apply negb_false_iff, zmemb_In in E. contradiction. }
  set (d := co_draws s (co_ep s)) in *.
  destruct (place_spec d O (repeat None (Z.to_nat cend))) as [Len P].
  { intros c Hc. rewrite repeat_length. specialize (A2 c Hc). lia. }
  { exact A3. }
  split; [|split; [reflexivity|split; [reflexivity|split; [reflexivity|split; [|split; reflexivity]]]]].
  - split; [exact A1|]. split; [apply repeat_length|]. split; [cbn; rewrite Len; apply repeat_length|].
    cbn [co_pos co_arr]. split.
    + intros i p Hp. apply nth_error_In in Hp. specialize (A2 p Hp). lia.
    + intros c j. destruct (P c) as [P1 P2]. split.
      * intros H. destruct (nth_error_dec d c) as [[k Hk]|Hnone].
        -- rewrite (P1 k Hk) in H. injection H as <-. split; [exact Hk|].
           apply nth_error_In in Hk. specialize (A2 c Hk). lia.
        -- rewrite (P2 Hnone) in H. apply acell_repeat_none in H. discriminate.
      * intros [Hk _]. rewrite (P1 j Hk). reflexivity.
  - intros i. unfold co_done. cbn [co_pos]. destruct (nth_error d i) as [p|] eqn:Ep; [|reflexivity].
    apply nth_error_In in Ep. specialize (A2 p Ep). apply Z.eqb_neq. lia.
Qed.

(* a failing reset leaves everything but the flag and the generator alone *)
Lemma co_reset_fail cend n s : admb cend n (co_draws s (co_ep s)) = false ->
  co_pos (co_reset cend n s) = co_pos s /\ co_arr (co_reset cend n s) = co_arr s /\
  co_rew (co_reset cend n s) = co_rew s /\ co_bad (co_reset cend n s) = true.
Proof. intros E. unfold co_reset. rewrite E. cbn. auto. Qed.

Theorem co_reset_cinv cend n s : cinv cend n s -> cinv cend n (co_reset cend n s).
Proof.
  intros H. destruct (admb cend n (co_draws s (co_ep s))) eqn:E.
  - apply co_reset_ok, admb_adm, E.
  - unfold co_reset. rewrite E. exact H.
Qed.

(* ---- step ------------------------------------------------------------------------------------- *)
(* an agent leaves cell p for the free cell q; it is written into q unless q is the last cell *)
Lemma cinv_move cend n s i p q a2 :
  cinv cend n s -> nth_error (co_pos s) i = Some p -> p <> q ->
  acell (co_arr s) q = Some None ->
  (exists a1, arr_set (co_arr s) p None = Some a1 /\
              ((q < cend - 1 /\ arr_set a1 q (Some i) = Some a2) \/ (q = cend - 1 /\ a2 = a1))) ->
  cinv cend n (with_pos_arr s (lset (co_pos s) i q) a2).
Proof.
  intros (L1 & L2 & L3 & R & A) Hi Npq Hq (a1 & S1 & S2).
  destruct (arr_set_spec _ _ _ _ S1) as (Rp & Len1 & C1).
  pose proof (acell_some _ _ _ Hq) as Rq.
  assert (Hil : (i < length (co_pos s))%nat) by (apply nth_error_Some; congruence).
  assert (Len2 : length a2 = length (co_arr s)).
  { destruct S2 as [[_ S2]|[_ ->]]; [|exact Len1].
    destruct (arr_set_spec _ _ _ _ S2) as (_ & Len2 & _). congruence. }
  assert (C2 : forall c, acell a2 c =
                 if (c =? q) && (q <? cend - 1) then Some (Some i)
                 else if c =? p then Some None else acell (co_arr s) c).
  { intros c. destruct S2 as [[Hlt S2]|[Heq ->]].
    - destruct (arr_set_spec _ _ _ _ S2) as (_ & _ & C2). rewrite C2, C1.
      destruct (c =? q) eqn:E; cbn [andb]; [|reflexivity].
      destruct (q <? cend - 1) eqn:E2; [reflexivity|lia].
    - rewrite C1. destruct (q <? cend - 1) eqn:E2; [lia|]. rewrite andb_false_r. reflexivity. }
  assert (Pos' : forall j, nth_error (lset (co_pos s) i q) j =
                           if Nat.eqb j i then Some q else nth_error (co_pos s) j).
  { intros j. destruct (Nat.eqb j i) eqn:E.
    - apply Nat.eqb_eq in E. subst j. apply nth_error_lset_same, Hil.
    - apply Nat.eqb_neq in E. apply nth_error_lset_other. congruence. }
  split; [cbn; rewrite lset_length; exact L1|]. split; [exact L2|]. split; [cbn; congruence|].
  cbn [co_pos co_arr with_pos_arr]. split.
  - intros j x Hj. rewrite Pos' in Hj. destruct (Nat.eqb j i).
    + injection Hj as <-. rewrite L3 in Rq. lia.
    + apply (R j x Hj).
  - intros c j. rewrite C2, Pos'. split.
    + intros H. destruct ((c =? q) && (q <? cend - 1)) eqn:E1.
      * apply andb_true_iff in E1. destruct E1 as [E1 E2]. apply Z.eqb_eq in E1. subst c.
        injection H as <-. rewrite Nat.eqb_refl. split; [reflexivity|lia].
      * destruct (c =? p) eqn:E2; [discriminate|]. apply Z.eqb_neq in E2.
        apply A in H. destruct H as [H1 H2]. destruct (Nat.eqb j i) eqn:E3; [|auto].
        apply Nat.eqb_eq in E3. subst j. congruence.
    + intros [H1 H2]. destruct (Nat.eqb j i) eqn:E3.
      * apply Nat.eqb_eq in E3. subst j. injection H1 as <-.
        rewrite Z.eqb_refl. destruct (q <? cend - 1) eqn:E; [reflexivity|lia].
      * assert (Hc : acell (co_arr s) c = Some (Some j)) by (apply A; auto).
        destruct (c =? q) eqn:E1.
        { apply Z.eqb_eq in E1. subst c. congruence. }
        cbn [andb]. destruct (c =? p) eqn:E2; [|exact Hc].
        apply Z.eqb_eq in E2. subst c.
        assert (Hi' : acell (co_arr s) p = Some (Some i)) by (apply A; auto).
        rewrite Hi' in Hc. injection Hc as ->. rewrite Nat.eqb_refl in E3. discriminate.
Qed.

(* EVERY iteration of the loop keeps the invariant: any key, any action value, any state (also an
   arrived agent walking back, also the arms that raise) *)
Theorem step_one_cinv cend n s ia : cinv cend n s -> cinv cend n (step_one cend s ia).
Proof.
  intros H. unfold step_one. destruct (co_bad s); [exact H|].
  destruct (nth_error (co_pos s) (fst ia)) as [p|] eqn:Ep; [|exact H].
  destruct (snd ia =? 0).
  { destruct (p =? 0); [apply cinv_add_rew, H|]. rewrite cell_acell.
    destruct (acell (co_arr s) (p - 1)) as [[j|]|] eqn:Ec; [apply cinv_add_rew, cinv_add_rew, H| |exact H].
    destruct (arr_set (co_arr s) p None) as [a1|] eqn:S1; [|exact H].
    destruct (arr_set a1 (p - 1) (Some (fst ia))) as [a2|] eqn:S2; [|exact H].
    apply cinv_add_rew. apply (cinv_move cend n s (fst ia) p (p - 1) a2 H Ep); [lia|exact Ec|].
    exists a1. split; [exact S1|]. left. split; [|exact S2].
    destruct H as (_ & _ & _ & R & _). specialize (R _ _ Ep). lia. }
  destruct (snd ia =? 2).
  { rewrite cell_acell.
    destruct (acell (co_arr s) (p + 1)) as [[j|]|] eqn:Ec; [apply cinv_add_rew, cinv_add_rew, H| |exact H].
    destruct (arr_set (co_arr s) p None) as [a1|] eqn:S1; [|exact H].
    destruct (p + 1 =? cend - 1) eqn:E.
    - apply Z.eqb_eq in E. apply cinv_add_rew.
      apply (cinv_move cend n s (fst ia) p (p + 1) a1 H Ep); [lia|exact Ec|].
      exists a1. split; [exact S1|]. right. auto.
    - apply Z.eqb_neq in E.
      destruct (arr_set a1 (p + 1) (Some (fst ia))) as [a2|] eqn:S2; [|exact H].
      apply cinv_add_rew. apply (cinv_move cend n s (fst ia) p (p + 1) a2 H Ep); [lia|exact Ec|].
      exists a1. split; [exact S1|]. left. split; [|exact S2].
      pose proof (acell_some _ _ _ Ec) as Rq. destruct H as (_ & _ & L3 & _). rewrite L3 in Rq. lia. }
  destruct (snd ia =? 1); [apply cinv_add_rew, H|exact H].
Qed.

Theorem co_step_cinv cend n acts : forall s, cinv cend n s -> cinv cend n (co_step cend s acts).
Proof.
  unfold co_step. induction acts as [|ia acts IH]; intros s H; cbn [fold_left]; [exact H|].
  apply IH, step_one_cinv, H.
Qed.

(* frame: a step never touches the generator; it changes the position of the acting agent only *)
Lemma step_one_frame cend s ia :
  co_draws (step_one cend s ia) = co_draws s /\ co_ep (step_one cend s ia) = co_ep s /\
  length (co_rew (step_one cend s ia)) = length (co_rew s) /\
  forall j, j <> fst ia -> nth_error (co_pos (step_one cend s ia)) j = nth_error (co_pos s) j.
Proof.
  assert (F : forall s' : cstate, co_draws s' = co_draws s -> co_ep s' = co_ep s ->
            length (co_rew s') = length (co_rew s) ->
            (forall j, j <> fst ia -> nth_error (co_pos s') j = nth_error (co_pos s) j) ->
            forall i d,
            co_draws (add_rew s' i d) = co_draws s /\ co_ep (add_rew s' i d) = co_ep s /\
            length (co_rew (add_rew s' i d)) = length (co_rew s) /\
            forall j, j <> fst ia -> nth_error (co_pos (add_rew s' i d)) j = nth_error (co_pos s) j).
  { intros s' H1 H2 H3 H4 i d. destruct (add_rew_draws s' i d) as [D1 D2].
    rewrite D1, D2, add_rew_len, add_rew_pos. auto. }
  assert (F0 : co_draws s = co_draws s /\ co_ep s = co_ep s /\ length (co_rew s) = length (co_rew s) /\
               forall j, j <> fst ia -> nth_error (co_pos s) j = nth_error (co_pos s) j) by auto.
  assert (Fm : forall q a2 i d,
            let s' := with_pos_arr s (lset (co_pos s) (fst ia) q) a2 in
            co_draws (add_rew s' i d) = co_draws s /\ co_ep (add_rew s' i d) = co_ep s /\
            length (co_rew (add_rew s' i d)) = length (co_rew s) /\
            forall j, j <> fst ia -> nth_error (co_pos (add_rew s' i d)) j = nth_error (co_pos s) j).
  { intros q a2 i d s'. apply F; try reflexivity. intros j Hj. cbn.
    apply nth_error_lset_other. congruence. }
  unfold step_one. destruct (co_bad s); [exact F0|].
  destruct (nth_error (co_pos s) (fst ia)) as [p|]; [|exact F0].
  destruct (snd ia =? 0).
  { destruct (p =? 0); [apply F; auto|].
    destruct (cell s (p - 1)) as [[j|]|]; [|
      destruct (arr_set (co_arr s) p None) as [a1|]; [|exact F0];
      destruct (arr_set a1 (p - 1) (Some (fst ia))) as [a2|]; [apply Fm|exact F0] | exact F0].
    destruct (F s eq_refl eq_refl eq_refl (fun _ _ => eq_refl) (fst ia) (-5)) as (G1 & G2 & G3 & G4).
    apply F; assumption. }
  destruct (snd ia =? 2).
  { destruct (cell s (p + 1)) as [[j|]|]; [| |exact F0].
    - destruct (F s eq_refl eq_refl eq_refl (fun _ _ => eq_refl) (fst ia) (-5)) as (G1 & G2 & G3 & G4).
      apply F; assumption.
    - destruct (arr_set (co_arr s) p None) as [a1|]; [|exact F0].
      destruct (p + 1 =? cend - 1); [apply Fm|].
      destruct (arr_set a1 (p + 1) (Some (fst ia))) as [a2|]; [apply Fm|exact F0]. }
  destruct (snd ia =? 1); [apply F; auto|exact F0].
Qed.

(* under the invariant an iteration raises exactly for an unknown agent and for an agent that has
   arrived and moves RIGHT (`self.corridor[agent.position + 1]` with position = end-1: the error arm) *)
Theorem step_one_error_arm cend n s i a : cinv cend n s -> co_bad s = false ->
  (co_bad (step_one cend s (i, a)) = true <->
   (n <= i)%nat \/ (a = 2 /\ co_done cend s i = true)).
Proof.
  intros H Hb. pose proof H as (L1 & L2 & L3 & R & A).
  assert (AR : forall s' j d, co_bad s' = false -> length (co_rew s') = n -> (j < n)%nat ->
                              co_bad (add_rew s' j d) = false).
  { intros s' j d B Ln Hj. rewrite add_rew_bad; [exact B|lia]. }
  unfold step_one, co_done. rewrite Hb. cbn [fst snd].
  destruct (nth_error (co_pos s) i) as [p|] eqn:Ep.
  2:{ cbn. apply nth_error_None in Ep. split; [intros _; left; lia|reflexivity]. }
  assert (Hi : (i < n)%nat) by (rewrite <- L1; apply nth_error_Some; congruence).
  pose proof (R i p Ep) as Rp.
  assert (InR : forall c, 0 <= c <= cend - 1 -> exists x, acell (co_arr s) c = Some x).
  { intros c Hc. apply acell_range. rewrite L3. lia. }
  assert (OccN : forall c j, acell (co_arr s) c = Some (Some j) -> (j < n)%nat).
  { intros c j Hc. apply A in Hc. destruct Hc as [Hc _]. rewrite <- L1. apply nth_error_Some. congruence. }
  destruct (a =? 0) eqn:E0.
  { apply Z.eqb_eq in E0. subst a. split; [|intros [?|[? _]]; [lia|discriminate]].
    intros Hbad. exfalso. revert Hbad. destruct (p =? 0) eqn:Ep0.
    - rewrite AR by auto. discriminate.
    - apply Z.eqb_neq in Ep0. rewrite cell_acell. destruct (InR (p - 1)) as [x Hx]; [lia|]. rewrite Hx.
      destruct x as [j|].
      + rewrite AR; [discriminate| |rewrite add_rew_len; exact L2|apply (OccN _ _ Hx)].
        apply AR; auto.
      + destruct (arr_set_ok (co_arr s) p None) as [a1 S1]; [rewrite L3; lia|]. rewrite S1.
        destruct (arr_set_spec _ _ _ _ S1) as (_ & Len1 & _).
        destruct (arr_set_ok a1 (p - 1) (Some i)) as [a2 S2]; [rewrite Len1, L3; lia|]. rewrite S2.
        rewrite AR; [discriminate|exact Hb|exact L2|exact Hi]. }
  destruct (a =? 2) eqn:E2.
  { apply Z.eqb_eq in E2. subst a. rewrite cell_acell. destruct (p =? cend - 1) eqn:Ea.
    - apply Z.eqb_eq in Ea. split; [intros _; right; auto|]. intros _.
      destruct (acell (co_arr s) (p + 1)) as [x|] eqn:Hx; [|reflexivity].
      apply acell_some in Hx. rewrite L3 in Hx. lia.
    - apply Z.eqb_neq in Ea. split; [|intros [?|[_ ?]]; [lia|discriminate]].
      intros Hbad. exfalso. revert Hbad. destruct (InR (p + 1)) as [x Hx]; [lia|]. rewrite Hx.
      destruct x as [j|].
      + rewrite AR; [discriminate| |rewrite add_rew_len; exact L2|apply (OccN _ _ Hx)].
        apply AR; auto.
      + destruct (arr_set_ok (co_arr s) p None) as [a1 S1]; [rewrite L3; lia|]. rewrite S1.
        destruct (arr_set_spec _ _ _ _ S1) as (_ & Len1 & _).
        destruct (p + 1 =? cend - 1).
        * rewrite AR; [discriminate|exact Hb|exact L2|exact Hi].
        * destruct (arr_set_ok a1 (p + 1) (Some i)) as [a2 S2]; [rewrite Len1, L3; lia|]. rewrite S2.
          rewrite AR; [discriminate|exact Hb|exact L2|exact Hi]. }
  apply Z.eqb_neq in E2. split; [|intros [?|[? _]]; [lia|congruence]].
  intros Hbad. exfalso. revert Hbad. destruct (a =? 1); [|congruence].
  rewrite AR by auto. discriminate.
Qed.

(* ---- getters ---------------------------------------------------------------------------------- *)
Lemma co_obs_frame cend s i :
  snd (co_obs cend s i) = s \/ snd (co_obs cend s i) = set_bad s.
Proof.
  unfold co_obs. destruct (co_bad s); [left; reflexivity|].
  destruct (nth_error (co_pos s) i) as [p|]; [|right; reflexivity].
  destruct (if p =? 0 then Some 0 else occupied s (p - 1)) as [l|];
    [destruct (if p =? cend - 1 then Some 0 else occupied s (p + 1)) as [r|]|]; auto.
Qed.

Lemma co_reward_frame s i :
  co_pos (snd (co_reward s i)) = co_pos s /\ co_arr (snd (co_reward s i)) = co_arr s /\
  length (co_rew (snd (co_reward s i))) = length (co_rew s) /\
  co_draws (snd (co_reward s i)) = co_draws s /\ co_ep (snd (co_reward s i)) = co_ep s.
Proof.
  unfold co_reward. destruct (co_bad s); [auto|].
  destruct (nth_error (co_rew s) i); cbn; rewrite ?lset_length; auto.
Qed.

(* get_obs / get_reward, in any number and order, leave positions, array and generator alone *)
Theorem co_greach_frame cend n s s' : greach (corridor_sim cend n) s s' ->
  co_pos s' = co_pos s /\ co_arr s' = co_arr s /\ length (co_rew s') = length (co_rew s) /\
  co_draws s' = co_draws s /\ co_ep s' = co_ep s.
Proof.
  induction 1 as [s|s s' a _ IH|s s' a _ IH]; [auto| |]; cbn [corridor_sim sim_obs sim_reward] in IH.
  - destruct (co_obs_frame cend s a) as [E|E]; rewrite E in IH; exact IH.
  - destruct (co_reward_frame s a) as (E1 & E2 & E3 & E4 & E5).
    destruct IH as (I1 & I2 & I3 & I4 & I5). repeat split; congruence.
Qed.

(* get_done, get_all_done, get_info read the positions only *)
Theorem corridor_done_stable cend n : done_stable (corridor_sim cend n).
Proof.
  intros s s' a G. destruct (co_greach_frame cend n s s' G) as (E & _).
  cbn [corridor_sim sim_done]. unfold co_done. rewrite E. reflexivity.
Qed.

Theorem corridor_getters_pure cend n s s' : greach (corridor_sim cend n) s s' ->
  (forall a, co_done cend s' a = co_done cend s a) /\ co_all cend s' = co_all cend s /\
  (forall a, sim_info (corridor_sim cend n) s' a = sim_info (corridor_sim cend n) s a).
Proof.
  intros G. destruct (co_greach_frame cend n s s' G) as (E & _). unfold co_done, co_all.
  rewrite E. auto.
Qed.

Lemma cinv_greach cend n s s' : greach (corridor_sim cend n) s s' -> cinv cend n s -> cinv cend n s'.
Proof.
  intros G (L1 & L2 & L3 & R & A). destruct (co_greach_frame cend n s s' G) as (E1 & E2 & E3 & _).
  unfold cinv. rewrite E1, E2, E3. auto.
Qed.

(* read-and-reset: the accumulated amount is handed out once, the entry is zero afterwards, nobody
   else's entry changes *)
Theorem co_reward_read_once s i x : co_bad s = false -> nth_error (co_rew s) i = Some x ->
  fst (co_reward s i) = x /\ nth_error (co_rew (snd (co_reward s i))) i = Some 0 /\
  (forall j, j <> i -> nth_error (co_rew (snd (co_reward s i))) j = nth_error (co_rew s) j) /\
  co_bad (snd (co_reward s i)) = false.
Proof.
  intros Hb Hx. unfold co_reward. rewrite Hb, Hx. cbn. split; [reflexivity|].
  assert (Hi : (i < length (co_rew s))%nat) by (apply nth_error_Some; congruence).
  split; [apply nth_error_lset_same, Hi|]. split; [|exact Hb].
  intros j Hj. apply nth_error_lset_other. congruence.
Qed.

(* ---- reachable states: every manager kind, every call list, in or out of protocol ------------- *)
Lemma co_do_call_cinv cend n k m c r m' :
  do_call (corridor_sim cend n) k m c = (r, m') -> cinv cend n (m_sim m) -> cinv cend n (m_sim m').
Proof.
  intros E H. destruct (do_call_sim_reach (corridor_sim cend n) k m c r m' E) as [Q|[Q|[l Q]]].
  - rewrite Q. exact H.
  - apply (cinv_greach _ _ _ _ Q). apply co_reset_cinv, H.
  - apply (cinv_greach _ _ _ _ Q). apply co_step_cinv, H.
Qed.

Theorem corridor_cinv_reachable cend n k s0 cs : cinv cend n s0 ->
  cinv cend n (m_sim (snd (run (corridor_sim cend n) k (init s0) cs))) /\
  forall e, In e (trace (corridor_sim cend n) k (init s0) Fresh cs) ->
    cinv cend n (m_sim (te_pre e)) /\ cinv cend n (m_sim (te_post e)).
Proof.
  intros H0. assert (H : cinv cend n (m_sim (init s0))) by exact H0. clear H0.
  generalize (init s0) H. generalize Fresh. clear H. split.
  - revert m H. induction cs as [|c cs IH]; intros m H; cbn [run]; [exact H|].
    destruct (do_call (corridor_sim cend n) k m c) as [r m1] eqn:E.
    specialize (IH m1 (co_do_call_cinv _ _ _ _ _ _ _ E H)).
    destruct (run (corridor_sim cend n) k m1 cs) as [rs m2]. exact IH.
  - revert p m H. induction cs as [|c cs IH]; intros ph m H e He; cbn [trace] in He; [destruct He|].
    destruct (do_call (corridor_sim cend n) k m c) as [r m1] eqn:E.
    pose proof (co_do_call_cinv _ _ _ _ _ _ _ E H) as H1.
    destruct He as [<-|He]; [cbn; auto|]. exact (IH _ m1 H1 e He).
Qed.

(* ---- C01 / C07 / C08 / C16 instantiated -------------------------------------------------------- *)
Lemma corridor_order cend n : order (corridor_sim cend n) = seq 0 n.
Proof.
  unfold order, agents. cbn [corridor_sim sim_n sim_learning].
  induction (seq 0 n) as [|a l IH]; cbn; [reflexivity|]. rewrite IH. reflexivity.
Qed.

Lemma corridor_order_nonempty cend n : n <> O -> order (corridor_sim cend n) <> [].
Proof. intros H. rewrite corridor_order. destruct n; [contradiction|discriminate]. Qed.

Theorem corridor_invariants_all cend n s0 cs :
  in_protocol (trace (corridor_sim cend n) MAll (init s0) Fresh cs) ->
  forall e, In e (trace (corridor_sim cend n) MAll (init s0) Fresh cs) ->
    (te_ph e <> Fresh -> incl (nonlearning (corridor_sim cend n)) (m_done (te_pre e))) /\
    do_call (corridor_sim cend n) MAll (te_pre e) (te_call e) = (te_resp e, te_post e) /\
    (cinv cend n s0 -> cinv cend n (m_sim (te_pre e)) /\ cinv cend n (m_sim (te_post e))) /\
    NoDup (ep_dones (trace (corridor_sim cend n) MAll (init s0) Fresh cs) []).
Proof.
  intros Hp e He. destruct (hist_inv_all (corridor_sim cend n) s0 cs Hp e He) as (N & D).
  split; [exact N|]. split; [exact D|]. split; [|apply once_all, Hp].
  intros H0. apply (proj2 (corridor_cinv_reachable cend n MAll s0 cs H0) e He).
Qed.

Theorem corridor_invariants_turn cend n s0 cs :
  in_protocol (trace (corridor_sim cend n) MTurn (init s0) Fresh cs) ->
  forall e, In e (trace (corridor_sim cend n) MTurn (init s0) Fresh cs) ->
    (te_ph e = Live -> tinv (corridor_sim cend n) (te_pre e)) /\
    do_call (corridor_sim cend n) MTurn (te_pre e) (te_call e) = (te_resp e, te_post e) /\
    (cinv cend n s0 -> cinv cend n (m_sim (te_pre e)) /\ cinv cend n (m_sim (te_post e))) /\
    NoDup (ep_dones (trace (corridor_sim cend n) MTurn (init s0) Fresh cs) []).
Proof.
  intros Hp e He. destruct (hist_inv_turn (corridor_sim cend n) s0 cs Hp e He) as (_ & _ & T & D).
  split; [exact T|]. split; [exact D|]. split; [|apply once_turn; [apply corridor_done_stable|exact Hp]].
  intros H0. apply (proj2 (corridor_cinv_reachable cend n MTurn s0 cs H0) e He).
Qed.

Theorem corridor_steps_turn cend n s0 cs :
  in_protocol (trace (corridor_sim cend n) MTurn (init s0) Fresh cs) ->
  forall e acts sh, In e (trace (corridor_sim cend n) MTurn (init s0) Fresh cs) ->
    te_call e = CStep acts sh ->
    match te_resp e with
    | ROut o =>
        wfo o /\ NoDup (keys o) /\ (forall a, In a (keys o) -> ~ In a (m_done (te_pre e))) /\
        ~ submits_done (m_done (te_pre e)) acts /\ incl (m_done (te_pre e)) (m_done (te_post e)) /\
        greach (corridor_sim cend n) (co_step cend (m_sim (te_pre e)) acts) (m_sim (te_post e)) /\
        o_all o = co_all cend (co_step cend (m_sim (te_pre e)) acts)
                  || all_in (corridor_sim cend n) (m_done (te_post e)) /\
        (o_all o = false -> forall a, In (a, true) (o_done o) -> In a (m_done (te_post e)))
    | RObs _ => False
    | _ => te_post e = te_pre e
    end.
Proof.
  intros Hp e acts sh He Hc.
  pose proof (steps_ok_turn (corridor_sim cend n) s0 cs Hp e acts sh He Hc) as H.
  destruct (te_resp e); auto. destruct H as (H1 & H2 & H3 & H4 & H5 & H6 & H7 & H8).
  split; [exact H1|]. split; [exact H2|]. split; [exact H3|]. split; [exact H4|].
  split; [exact H5|]. split; [exact H6|]. split; [exact H7|]. apply H8, corridor_done_stable.
Qed.

Theorem corridor_trainer_never_fails PS cend n pmap (pol_act : PS -> nat -> cobs -> Z * PS)
        pol_reset shuf h k m ps :
  n <> O -> k = MAll \/ k = MTurn ->
  er_status (generate_episode (corridor_sim cend n) pmap pol_act pol_reset shuf h k m ps) = EOk /\
  exists obs, er_reset (generate_episode (corridor_sim cend n) pmap pol_act pol_reset shuf h k m ps)
              = RObs obs.
Proof.
  intros Hn Hk. apply Trainer_proofs.never_fails.
  - unfold Trainer_proofs.tk. tauto.
  - unfold Trainer_proofs.sim_ok. split; [intros _; apply corridor_done_stable|]. split.
    + intros ->. destruct Hk; discriminate.
    + intros _. apply corridor_order_nonempty, Hn.
Qed.

(* two simulation objects whose random generators are in the same state *)
Definition same_seed (s1 s2 : cstate) : Prop := co_draws s1 = co_draws s2 /\ co_ep s1 = co_ep s2.

(* reset forgets everything but the generator: positions, array, reward table, flag *)
Theorem co_reset_forgets cend n s1 s2 : same_seed s1 s2 ->
  admb cend n (co_draws s1 (co_ep s1)) = true -> co_reset cend n s1 = co_reset cend n s2.
Proof. intros [E1 E2] Ha. unfold co_reset. rewrite <- E1, <- E2, Ha. reflexivity. Qed.

Lemma same_seed_reseed s1 s2 f j : same_seed (reseed s1 f j) (reseed s2 f j).
Proof. split; reflexivity. Qed.

Theorem corridor_episode_indistinguishable cend n k m1 m2 cs :
  n <> O -> k <> MTurnPrefix -> same_seed (m_sim m1) (m_sim m2) ->
  admb cend n (co_draws (m_sim m1) (co_ep (m_sim m1))) = true ->
  fst (run (corridor_sim cend n) k m1 (CReset :: cs)) =
  fst (run (corridor_sim cend n) k m2 (CReset :: cs)).
Proof.
  intros Hn Hk Hs Ha. apply Reset_proofs.episode_indistinguishable; [exact Hk| |].
  - intros _. apply corridor_order_nonempty, Hn.
  - apply co_reset_forgets; assumption.
Qed.

Definition m_reseed (m : mstate cstate) (f : nat -> list Z) (j : nat) : mstate cstate :=
  {| m_sim := reseed (m_sim m) f j; m_done := m_done m; m_ptr := m_ptr m |}.

Theorem corridor_used_vs_fresh cend n k s0 h cs f j :
  n <> O -> k <> MTurnPrefix -> admb cend n (f j) = true ->
  fst (run (corridor_sim cend n) k
           (m_reseed (snd (run (corridor_sim cend n) k (init s0) h)) f j) (CReset :: cs)) =
  fst (run (corridor_sim cend n) k (init (reseed s0 f j)) (CReset :: cs)).
Proof.
  intros Hn Hk Ha. apply corridor_episode_indistinguishable; try assumption.
  apply same_seed_reseed.
Qed.

(* ---- getter closure: a property of simulation states that the getters keep when they are asked
        for listed agents is kept by every manager call (all-step, turn-based), and every done entry
        of an output is the done flag of a listed agent in the state the call leaves ------------- *)
Section Closure.
  Context {St Obs Info Act : Type}.
  Variable Sim : simulation St Obs Info Act.
  Variable Q : St -> Prop.
  Hypothesis Qobs : forall s a, In a (agents Sim) -> Q s -> Q (snd (sim_obs Sim s a)).
  Hypothesis Qrew : forall s a, In a (agents Sim) -> Q s -> Q (snd (sim_reward Sim s a)).
  Hypothesis Dobs : forall s a c, sim_done Sim (snd (sim_obs Sim s a)) c = sim_done Sim s c.
  Hypothesis Drew : forall s a c, sim_done Sim (snd (sim_reward Sim s a)) c = sim_done Sim s c.
  Notation L := (length (order Sim)).

  Definition dvals (o : out Obs Info) (s : St) : Prop :=
    forall a b, In (a, b) (o_done o) -> In a (agents Sim) /\ b = sim_done Sim s a.

  Lemma thread_D {X} (g : St -> nat -> X * St) :
    (forall s a c, sim_done Sim (snd (g s a)) c = sim_done Sim s c) ->
    forall l s c, sim_done Sim (snd (thread g s l)) c = sim_done Sim s c.
  Proof.
    intros Hd. induction l as [|a l IH]; intros s c; cbn [thread]; [reflexivity|].
    pose proof (Hd s a c) as D1. destruct (g s a) as [x s1]. cbn [snd] in *.
    specialize (IH s1 c). destruct (thread g s1 l) as [r s2]. cbn [snd] in *. congruence.
  Qed.

  Lemma thread_Q {X} (g : St -> nat -> X * St) :
    (forall s a, In a (agents Sim) -> Q s -> Q (snd (g s a))) ->
    forall l s, incl l (agents Sim) -> Q s -> Q (snd (thread g s l)).
  Proof.
    intros Hg. induction l as [|a l IH]; intros s Hl Hq; cbn [thread]; [auto|].
    pose proof (Hg s a (Hl a (or_introl eq_refl)) Hq) as Q1.
    destruct (g s a) as [x s1]. cbn [snd] in *.
    pose proof (IH s1 (fun y Hy => Hl y (or_intror Hy)) Q1) as Q2.
    destruct (thread g s1 l) as [r s2]. exact Q2.
  Qed.

  Lemma add_report_Q s a o : In a (agents Sim) -> Q s -> dvals o s ->
    Q (snd (add_report Sim s a o)) /\ dvals (fst (add_report Sim s a o)) (snd (add_report Sim s a o)) /\
    forall c, sim_done Sim (snd (add_report Sim s a o)) c = sim_done Sim s c.
  Proof.
    intros Ha Hq Hd. unfold add_report.
    pose proof (Qobs s a Ha Hq) as Q1. pose proof (Dobs s a) as D1.
    destruct (sim_obs Sim s a) as [ob s1]. cbn [snd] in *.
    pose proof (Qrew s1 a Ha Q1) as Q2. pose proof (Drew s1 a) as D2.
    destruct (sim_reward Sim s1 a) as [r s2]. cbn [fst snd o_done] in *.
    assert (D : forall c, sim_done Sim s2 c = sim_done Sim s c) by (intros c; rewrite D2; apply D1).
    split; [exact Q2|]. split; [|exact D].
    intros x b Hin. apply in_app_or in Hin. destruct Hin as [Hin|[Hin|[]]].
    - destruct (Hd x b Hin) as [H1 H2]. split; [exact H1|]. rewrite D. exact H2.
    - injection Hin as <- <-. auto.
  Qed.

  Lemma flush_Q d l : forall s o, incl l (agents Sim) -> Q s -> dvals o s ->
    Q (snd (flush Sim s d l o)) /\ dvals (fst (flush Sim s d l o)) (snd (flush Sim s d l o)).
  Proof.
    induction l as [|a l IH]; intros s o Hl Hq Hd; cbn [flush]; [auto|].
    destruct (memb a d); [apply IH; auto; intros y Hy; apply Hl; right; exact Hy|].
    destruct (add_report_Q s a o (Hl a (or_introl eq_refl)) Hq Hd) as (Q1 & D1 & _).
    destruct (add_report Sim s a o) as [o1 s1]. cbn [fst snd] in *.
    apply IH; auto. intros y Hy. apply Hl. right. exact Hy.
  Qed.

  Lemma dvals_set_all o b s : dvals o s -> dvals (set_all o b) s.
  Proof. intros H. exact H. Qed.

  Lemma turn_search_Q fuel : forall s d p o, (p < L)%nat -> Q s -> dvals o s ->
    match turn_search Sim fuel s d p o with
    | SOk o' s' d' p' => Q s' /\ dvals o' s'
    | SFuel => True
    end.
  Proof.
    induction fuel as [|fuel IH]; intros s d p o Hp Hq Hd; cbn [turn_search]; [exact I|].
    assert (HL : L <> O) by lia.
    assert (Hp' : (S p mod L < L)%nat) by (apply Nat.mod_upper_bound, HL).
    assert (Ha : In (nth p (order Sim) O) (agents Sim)) by (apply order_In, nth_In, Hp).
    destruct (memb _ d); [apply IH; assumption|].
    destruct (add_report_Q s _ o Ha Hq Hd) as (Q1 & D1 & _).
    destruct (add_report Sim s (nth p (order Sim) O) o) as [o1 s1]. cbn [fst snd] in *.
    destruct (sim_done Sim s _).
    - destruct (all_in Sim _); [split; [exact Q1|apply dvals_set_all, D1]|apply IH; assumption].
    - auto.
  Qed.

  Lemma dvals_empty b s : dvals (empty_out b) s.
  Proof. intros a x []. Qed.

  (* one call of the all-step or the turn-based manager *)
  Lemma do_call_Q k m c r m' : k = MAll \/ k = MTurn ->
    (k = MTurn -> forall acts sh, c = CStep acts sh -> (m_ptr m < L)%nat) ->
    do_call Sim k m c = (r, m') ->
    match r with
    | RObs obs => c = CReset /\ (forall a, In a (map fst obs) -> In a (agents Sim)) /\
                  (Q (sim_reset Sim (m_sim m)) -> Q (m_sim m')) /\
                  (forall a, sim_done Sim (m_sim m') a = sim_done Sim (sim_reset Sim (m_sim m)) a)
    | ROut o => exists acts sh, c = CStep acts sh /\
                  (Q (sim_step Sim (m_sim m) (match k with MAll => sh | _ => acts end)) ->
                   Q (m_sim m') /\ dvals o (m_sim m'))
    | _ => m' = m
    end.
  Proof.
    intros Hk Hp H. destruct Hk as [-> | ->]; destruct c as [|acts sh]; cbn [do_call] in H.
    - unfold all_reset in H.
      set (lv := filter (fun a => negb (memb a (nonlearning Sim))) (agents Sim)) in *.
      assert (Hl : incl lv (agents Sim)) by (intros a Ha; apply filter_In in Ha; tauto).
      pose proof (thread_keys (sim_obs Sim) (sim_reset Sim (m_sim m)) lv) as K.
      pose proof (fun Hq => thread_Q (sim_obs Sim) Qobs lv (sim_reset Sim (m_sim m)) Hl Hq) as T.
      pose proof (thread_D (sim_obs Sim) Dobs lv (sim_reset Sim (m_sim m))) as D.
      destruct (thread (sim_obs Sim) (sim_reset Sim (m_sim m)) lv) as [obs s2]. cbn [fst snd] in *.
      injection H as <- <-. split; [reflexivity|]. split; [rewrite K; exact Hl|]. cbn [m_sim].
      split; [exact T|exact D].
    - unfold all_step in H. destruct (existsb _ acts); [injection H as <- <-; reflexivity|].
      set (lv := filter (fun a => negb (memb a (m_done m))) (agents Sim)) in *.
      assert (Hl : incl lv (agents Sim)) by (intros a Ha; apply filter_In in Ha; tauto).
      pose proof (fun s Hq => thread_Q (sim_obs Sim) Qobs lv s Hl Hq) as T1.
      pose proof (fun s Hq => thread_Q (sim_reward Sim) Qrew lv s Hl Hq) as T2.
      destruct (thread (sim_obs Sim) (sim_step Sim (m_sim m) sh) lv) as [obs s2] eqn:E1.
      destruct (thread (sim_reward Sim) s2 lv) as [rew s3] eqn:E2.
      injection H as <- <-. exists acts, sh. split; [reflexivity|]. intros Hq. cbn [m_sim].
      specialize (T1 _ Hq). rewrite E1 in T1. cbn [snd] in T1.
      specialize (T2 _ T1). rewrite E2 in T2. cbn [snd] in T2. rename T2 into Q3.
      split; [exact Q3|]. intros a b Hin. cbn [o_done] in Hin. apply in_map_iff in Hin.
      destruct Hin as (a' & Ea & Hin). injection Ea as <- <-. auto.
    - unfold turn_reset in H. destruct (order Sim) as [|a0 rest] eqn:Eo; [injection H as <- <-; reflexivity|].
      cbn [nth] in H.
      assert (Ha : In a0 (agents Sim)) by (apply order_In; rewrite Eo; left; reflexivity).
      pose proof (Qobs (sim_reset Sim (m_sim m)) a0 Ha) as Q1.
      pose proof (Dobs (sim_reset Sim (m_sim m)) a0) as D1.
      destruct (sim_obs Sim (sim_reset Sim (m_sim m)) a0) as [ob s2]. cbn [snd] in *.
      injection H as <- <-. split; [reflexivity|]. split; [intros a [<-|[]]; exact Ha|].
      cbn [m_sim]. split; [exact Q1|exact D1].
    - unfold turn_step, turn_step_gen in H. destruct acts as [|[a0 v0] acts'] eqn:Ea;
        [injection H as <- <-; reflexivity|]. rewrite <- Ea in *.
      destruct (existsb _ acts); [injection H as <- <-; reflexivity|].
      destruct (sim_all Sim (sim_step Sim (m_sim m) acts)).
      + pose proof (fun Hq => flush_Q (m_done m) (agents Sim) (sim_step Sim (m_sim m) acts)
                                (empty_out true) (incl_refl _) Hq (dvals_empty _ _)) as F.
        destruct (flush Sim _ (m_done m) (agents Sim) (empty_out true)) as [o s2].
        injection H as <- <-. exists acts, sh. split; [reflexivity|]. exact F.
      + pose proof (fun Hq => turn_search_Q (S L) (sim_step Sim (m_sim m) acts) (m_done m) (m_ptr m)
                                (empty_out false) (Hp eq_refl acts sh eq_refl) Hq (dvals_empty _ _)) as T.
        destruct (turn_search Sim (S L) _ (m_done m) (m_ptr m) (empty_out false)) as [o s2 d p|];
          injection H as <- <-; [|reflexivity].
        exists acts, sh. split; [reflexivity|]. exact T.
  Qed.
End Closure.

(* ---- the error arm under the managers' protocol ------------------------------------------------ *)
(* the agents an answer asks to act: those it gives an observation without reporting them done *)
Definition live_keys {Obs Info : Type} (r : resp Obs Info) (old : list nat) : list nat :=
  match r with
  | RObs obs => map fst obs
  | ROut o => map fst (filter (fun kb => negb (snd kb)) (o_done o))
  | _ => old
  end.

(* a caller that answers only for the agents it was asked for (an action dictionary has no
   duplicate keys); all-step with randomize_action_input: the shuffled list as well *)
Fixpoint polite {St Obs Info Act : Type} (asked : list nat) (t : list (@tentry St Obs Info Act)) : Prop :=
  match t with
  | [] => True
  | e :: t' =>
      match te_call e with
      | CStep acts sh => NoDup (map fst acts) /\ NoDup (map fst sh) /\
                         incl (map fst acts) asked /\ incl (map fst sh) asked
      | CReset => True
      end /\ polite (live_keys (te_resp e) asked) t'
  end.

Section NoErrorArm.
  Variable cend : Z.
  Variable n : nat.
  Notation S := (corridor_sim cend n).

  Definition good (s : cstate) : Prop := cinv cend n s /\ co_bad s = false.

  Lemma co_obs_good s i : good s -> (i < n)%nat -> snd (co_obs cend s i) = s.
  Proof.
    intros [(L1 & L2 & L3 & R & A) Hb] Hi. unfold co_obs. rewrite Hb.
    destruct (nth_error (co_pos s) i) as [p|] eqn:Ep; [|apply nth_error_None in Ep; lia].
    pose proof (R i p Ep) as Rp.
    assert (Occ : forall c, 0 <= c <= cend - 1 -> exists z, occupied s c = Some z).
    { intros c Hc. unfold occupied. rewrite cell_acell.
      destruct (acell_range (co_arr s) c) as [x Hx]; [rewrite L3; lia|]. rewrite Hx.
      destruct x; eauto. }
    assert (E1 : exists l, (if p =? 0 then Some 0 else occupied s (p - 1)) = Some l).
    { destruct (p =? 0) eqn:E; [eauto|]. apply Z.eqb_neq in E. apply Occ. lia. }
    assert (E2 : exists r, (if p =? cend - 1 then Some 0 else occupied s (p + 1)) = Some r).
    { destruct (p =? cend - 1) eqn:E; [eauto|]. apply Z.eqb_neq in E. apply Occ. lia. }
    destruct E1 as [l ->], E2 as [r ->]. reflexivity.
  Qed.

  Lemma co_reward_good s i : good s -> (i < n)%nat -> good (snd (co_reward s i)).
  Proof.
    intros [H Hb] Hi. pose proof H as (L1 & L2 & L3 & R & A). unfold co_reward. rewrite Hb.
    destruct (nth_error (co_rew s) i) as [r|] eqn:Er; [|apply nth_error_None in Er; lia].
    cbn [snd]. split; [|exact Hb]. apply cinv_with_rew; [rewrite lset_length; exact L2|exact H].
  Qed.

  Lemma co_done_step_one s ia j : j <> fst ia -> co_done cend (step_one cend s ia) j = co_done cend s j.
  Proof.
    intros Hj. unfold co_done. destruct (step_one_frame cend s ia) as (_ & _ & _ & F).
    rewrite (F j Hj). reflexivity.
  Qed.

  (* a step in which every key is a known agent that has not arrived raises nothing *)
  Theorem co_step_good l : forall s, good s -> NoDup (map fst l) ->
    (forall a, In a (map fst l) -> (a < n)%nat /\ co_done cend s a = false) ->
    good (co_step cend s l).
  Proof.
    unfold co_step. induction l as [|[i a] l IH]; intros s Hg Hn Ha; cbn [fold_left]; [exact Hg|].
    cbn [map fst] in Hn, Ha. inversion Hn as [|? ? Hnot Hn']; subst. destruct Hg as [Hc Hb].
    apply IH; [|exact Hn'|].
    - split; [apply step_one_cinv, Hc|].
      destruct (co_bad (step_one cend s (i, a))) eqn:E; [|reflexivity]. exfalso.
      apply (step_one_error_arm cend n s i a Hc Hb) in E. destruct (Ha i (or_introl eq_refl)) as [H1 H2].
      destruct E as [E|[_ E]]; [lia|congruence].
    - intros j Hj. destruct (Ha j (or_intror Hj)) as [H1 H2]. split; [exact H1|].
      rewrite co_done_step_one; [exact H2|]. cbn [fst]. intros ->. contradiction.
  Qed.

  Lemma co_step_draws l : forall s, co_draws (co_step cend s l) = co_draws s.
  Proof.
    unfold co_step. induction l as [|ia l IH]; intros s; cbn [fold_left]; [reflexivity|].
    rewrite IH. apply step_one_frame.
  Qed.

  Definition PI (ph : phase) (asked : list nat) (m : mstate cstate) : Prop :=
    co_bad (m_sim m) = false /\ (forall j, admb cend n (co_draws (m_sim m) j) = true) /\
    (ph <> Fresh -> cinv cend n (m_sim m)) /\
    (ph = Live -> forall a, In a asked -> (a < n)%nat /\ co_done cend (m_sim m) a = false).

  Lemma call_PI k ph asked m c r m' : k = MAll \/ k = MTurn ->
    hinv S k ph m -> PI ph asked m ->
    match c with
    | CStep acts sh => ph = Live /\ NoDup (map fst acts) /\ NoDup (map fst sh) /\
                       incl (map fst acts) asked /\ incl (map fst sh) asked
    | CReset => True
    end ->
    do_call S k m c = (r, m') -> PI (next_phase ph r) (live_keys r asked) m'.
  Proof.
    intros Hk Hi (Pb & Pd & Pc & Pl) Hc E.
    set (D := co_draws (m_sim m)) in *.
    set (Q := fun s => good s /\ co_draws s = D).
    assert (Qobs : forall s a, In a (agents S) -> Q s -> Q (snd (sim_obs S s a))).
    { intros s a Ha [Hg Hd]. apply agents_In in Ha. cbn [S corridor_sim sim_obs sim_n] in *.
      rewrite (co_obs_good s a Hg Ha). split; assumption. }
    assert (Qrew : forall s a, In a (agents S) -> Q s -> Q (snd (sim_reward S s a))).
    { intros s a Ha [Hg Hd]. apply agents_In in Ha. cbn [S corridor_sim sim_reward sim_n] in *.
      split; [apply co_reward_good; assumption|].
      destruct (co_reward_frame s a) as (_ & _ & _ & F & _). congruence. }
    assert (Dobs : forall s a c0, sim_done S (snd (sim_obs S s a)) c0 = sim_done S s c0).
    { intros s a c0. apply (corridor_done_stable cend n). eapply gr_obs. constructor. }
    assert (Drew : forall s a c0, sim_done S (snd (sim_reward S s a)) c0 = sim_done S s c0).
    { intros s a c0. apply (corridor_done_stable cend n). eapply gr_rew. constructor. }
    assert (Hp : k = MTurn -> forall acts sh, c = CStep acts sh -> (m_ptr m < length (order S))%nat).
    { intros -> acts sh ->. destruct Hc as (-> & _). apply hinv_tinv in Hi. apply Hi. }
    pose proof (do_call_Q S Q Qobs Qrew Dobs Drew k m c r m' Hk Hp E) as C.
    destruct r as [obs|o| | |]; cbn [next_phase live_keys].
    - destruct C as (-> & Kin & Cq & Cd).
      cbn [S corridor_sim sim_reset sim_done] in Cq, Cd.
      destruct (co_reset_ok cend n (m_sim m) (admb_adm _ _ _ (Pd _))) as (R1 & R2 & _ & _ & R5 & R6 & _).
      destruct Cq as [[Hc' Hb'] Hd']; [split; [split|]; assumption|].
      split; [exact Hb'|]. split; [intros j; rewrite Hd'; apply Pd|]. split; [intros _; exact Hc'|].
      intros _ a Ha. specialize (Kin a Ha). apply agents_In in Kin. split; [exact Kin|].
      rewrite Cd. apply R5.
    - destruct C as (acts & sh & -> & Cq). destruct Hc as (-> & N1 & N2 & I1 & I2).
      pose proof (Pc ltac:(discriminate)) as Hcv. pose proof (Pl eq_refl) as Hask.
      cbn [S corridor_sim sim_step sim_done] in Cq.
      destruct Cq as [[[Hc' Hb'] Hd'] Dv].
      { split; [|apply co_step_draws]. apply co_step_good; [split; assumption| |].
        - destruct Hk as [-> | ->]; assumption.
        - intros a Ha. apply Hask. destruct Hk as [-> | ->]; [apply I2|apply I1]; exact Ha. }
      split; [exact Hb'|]. split; [intros j; rewrite Hd'; apply Pd|].
      split; [intros _; exact Hc'|].
      intros _ a Ha. apply in_map_iff in Ha. destruct Ha as ([a' b] & <- & Hin).
      apply filter_In in Hin. destruct Hin as [Hin Hb]. cbn [snd fst] in *.
      apply negb_true_iff in Hb. subst b. destruct (Dv a' false Hin) as [A1 A2].
      apply agents_In in A1. split; [exact A1|]. symmetry. exact A2.
    - subst m'. split; [exact Pb|]. split; [exact Pd|]. split; [exact Pc|exact Pl].
    - subst m'. split; [exact Pb|]. split; [exact Pd|]. split; [exact Pc|exact Pl].
    - subst m'. split; [exact Pb|]. split; [exact Pd|]. split; [exact Pc|exact Pl].
  Qed.

  Lemma trace_PI k : k = MAll \/ k = MTurn -> forall cs m ph asked,
    hinv S k ph m -> PI ph asked m ->
    in_protocol (trace S k m ph cs) -> polite asked (trace S k m ph cs) ->
    forall e, In e (trace S k m ph cs) ->
      exists asked_e, PI (te_ph e) asked_e (te_pre e) /\
        PI (next_phase (te_ph e) (te_resp e)) (live_keys (te_resp e) asked_e) (te_post e) /\
        match te_call e with
        | CStep acts sh => te_ph e = Live /\ incl (map fst acts) asked_e /\ incl (map fst sh) asked_e
        | CReset => True
        end.
  Proof.
    intros Hk. assert (Hs : sim_ok S k) by (destruct Hk as [-> | ->]; exact I).
    induction cs as [|c cs IH]; intros m ph asked Hi Hpi Hp Hpol e He; cbn [trace] in *; [destruct He|].
    destruct (do_call S k m c) as [r m1] eqn:E. cbn [polite te_call te_resp] in Hpol.
    destruct Hpol as [Hc Hpol].
    assert (Hph : match c with CStep _ _ => ph = Live | CReset => True end).
    { specialize (Hp _ (or_introl eq_refl)). cbn in Hp. destruct c; [exact I|exact Hp]. }
    assert (Hc' : match c with
                  | CStep acts sh => ph = Live /\ NoDup (map fst acts) /\ NoDup (map fst sh) /\
                                     incl (map fst acts) asked /\ incl (map fst sh) asked
                  | CReset => True
                  end) by (destruct c; [exact I|tauto]).
    pose proof (call_PI k ph asked m c r m1 Hk Hi Hpi Hc' E) as P1.
    pose proof (hinv_step S k ph m c r m1 Hs Hi Hph E) as Hi1.
    destruct He as [<-|He].
    - exists asked. cbn. split; [exact Hpi|]. split; [exact P1|]. destruct c; [exact I|tauto].
    - apply (IH m1 (next_phase ph r) (live_keys r asked) Hi1 P1 (in_protocol_tail _ _ Hp) Hpol e He).
  Qed.

  (* in an in-protocol history whose caller answers only for the agents it was asked for, from ANY
     start state, no manager call raises: before every step the invariant holds and every agent
     that acts is known and has not arrived (so `corridor[position + 1]` stays inside the array) *)
  Theorem corridor_no_error_arm k s0 cs : k = MAll \/ k = MTurn ->
    co_bad s0 = false -> (forall j, admb cend n (co_draws s0 j) = true) ->
    in_protocol (trace S k (init s0) Fresh cs) -> polite [] (trace S k (init s0) Fresh cs) ->
    forall e, In e (trace S k (init s0) Fresh cs) ->
      co_bad (m_sim (te_pre e)) = false /\ co_bad (m_sim (te_post e)) = false /\
      (te_ph e <> Fresh -> cinv cend n (m_sim (te_pre e))) /\
      (next_phase (te_ph e) (te_resp e) <> Fresh -> cinv cend n (m_sim (te_post e))) /\
      forall acts sh, te_call e = CStep acts sh ->
        forall a, In a (map fst acts) \/ In a (map fst sh) ->
          (a < n)%nat /\ co_done cend (m_sim (te_pre e)) a = false.
  Proof.
    intros Hk Hb Hd Hp Hpol e He.
    assert (P0 : PI Fresh [] (init s0)).
    { split; [exact Hb|]. split; [exact Hd|]. split; [intros H; contradiction|discriminate]. }
    destruct (trace_PI k Hk cs (init s0) Fresh [] (hinv_init S k s0) P0 Hp Hpol e He)
      as (asked & (B1 & _ & C1 & L1) & (B2 & _ & C2 & L2) & Hc).
    split; [exact B1|]. split; [exact B2|]. split; [exact C1|]. split; [exact C2|].
    intros acts sh Ec a Ha. rewrite Ec in Hc.
    destruct Hc as (Hl & I1 & I2). apply (L1 Hl).
    destruct Ha as [Ha|Ha]; [apply I1|apply I2]; exact Ha.
  Qed.

  (* ---- the snapshot clauses of checker 2502 on the model's own records ------------------------ *)
  Lemma cells_ok_complete pos : forall arr c0,
    (forall k x, nth_error arr k = Some (Some x) ->
                 nth_error pos x = Some (c0 + Z.of_nat k) /\ c0 + Z.of_nat k < cend - 1) ->
    cells_ok cend pos arr c0 = true.
  Proof.
    induction arr as [|o arr IH]; intros c0 H; cbn [cells_ok]; [reflexivity|].
    assert (IH' : cells_ok cend pos arr (c0 + 1) = true).
    { apply IH. intros k x Hk. destruct (H (Datatypes.S k) x Hk) as [H1 H2].
      replace (c0 + 1 + Z.of_nat k) with (c0 + Z.of_nat (Datatypes.S k)) by lia. auto. }
    destruct o as [j|]; [|exact IH'].
    destruct (H O j eq_refl) as [H1 H2]. rewrite Z.add_0_r in H1, H2. rewrite H1, IH'.
    rewrite Z.eqb_refl. cbn. destruct (c0 <? cend - 1) eqn:E; [reflexivity|lia].
  Qed.

  Lemma agents_ok_complete arr : forall pos j0,
    (forall k p, nth_error pos k = Some p -> p = cend - 1 \/ acell arr p = Some (Some (j0 + k)%nat)) ->
    agents_ok cend arr pos j0 = true.
  Proof.
    induction pos as [|p pos IH]; intros j0 H; cbn [agents_ok]; [reflexivity|].
    rewrite IH.
    - rewrite andb_true_r. destruct (H O p eq_refl) as [->|Hc]; [rewrite Z.eqb_refl; reflexivity|].
      unfold acell in Hc. rewrite Hc. rewrite Nat.add_0_r, Nat.eqb_refl. apply orb_true_r.
    - intros k q Hk. destruct (H (Datatypes.S k) q Hk) as [->|Hc]; [left; reflexivity|right].
      rewrite Hc. f_equal. f_equal. lia.
  Qed.

  Lemma distinct_ok_complete pos0 : forall pos k0,
    (forall i, nth_error pos i = nth_error pos0 (k0 + i)) ->
    (forall i j p, nth_error pos0 i = Some p -> nth_error pos0 j = Some p -> p <> cend - 1 -> i = j) ->
    distinct_ok cend pos = true.
  Proof.
    induction pos as [|p pos IH]; intros k0 Hs Hd; cbn [distinct_ok]; [reflexivity|].
    rewrite (IH (Datatypes.S k0)); [| |exact Hd].
    2:{ intros i. pose proof (Hs (Datatypes.S i)) as Hi. cbn [nth_error] in Hi. rewrite Hi. f_equal. lia. }
    rewrite andb_true_r. destruct (p =? cend - 1) eqn:E; [reflexivity|]. apply Z.eqb_neq in E. cbn.
    destruct (zmemb p pos) eqn:Em; [|reflexivity]. exfalso.
    apply zmemb_In, In_nth_error in Em. destruct Em as [i Hi].
    pose proof (Hs O) as H0. cbn in H0. rewrite Nat.add_0_r in H0.
    pose proof (Hs (Datatypes.S i)) as H1. cbn in H1. rewrite Hi in H1.
    assert (k0 = (k0 + Datatypes.S i)%nat) by (apply (Hd _ _ p); congruence). lia.
  Qed.

  Theorem snap_chk_complete s : 0 <= cend -> cinv cend n s -> snap_chk cend n (snap_of s) = 0.
  Proof.
    intros Hc H. pose proof H as (L1 & L2 & L3 & R & A).
    destruct (cinv_readable cend n s H) as (_ & Dist & In1 & _ & _).
    unfold snap_chk. cbn [snap_of sn_pos sn_arr sn_rew].
    rewrite L1, L2, L3, !Nat.eqb_refl, Z2Nat.id, Z.eqb_refl by exact Hc. cbn [andb].
    assert (F : forallb (fun p => (0 <=? p) && (p <=? cend - 1)) (co_pos s) = true).
    { apply forallb_forall. intros p Hp. apply In_nth_error in Hp. destruct Hp as [i Hi].
      specialize (R i p Hi). apply andb_true_iff. lia. }
    rewrite F. cbn [negb].
    rewrite cells_ok_complete.
    2:{ intros k x Hk. rewrite Z.add_0_l. apply A. unfold acell.
        destruct (Z.of_nat k <? 0) eqn:E; [apply Z.ltb_lt in E; lia|]. rewrite Nat2Z.id. exact Hk. }
    rewrite agents_ok_complete.
    2:{ intros k p Hk. destruct (Z.eq_dec p (cend - 1)) as [->|N]; [left; reflexivity|right].
        cbn. specialize (R k p Hk). apply A. split; [exact Hk|lia]. }
    cbn [andb negb]. rewrite (distinct_ok_complete (co_pos s) (co_pos s) O); [reflexivity|reflexivity|].
    intros i j p Hi Hj Hp. apply (Dist i j p Hi Hj). specialize (R i p Hi). lia.
  Qed.

  (* the records of the wire entry 2501 are the trace *)
  Lemma run_snap_trace k cs : forall m ph,
    fst (run_snap S (fun s => s) k m cs) =
    map (fun e => (te_resp e, snap_of (m_sim (te_post e)))) (trace S k m ph cs).
  Proof.
    induction cs as [|c cs IH]; intros m ph; cbn [run_snap trace]; [reflexivity|].
    destruct (do_call S k m c) as [r m1]. specialize (IH m1 (next_phase ph r)).
    destruct (run_snap S (fun s => s) k m1 cs) as [rs m2]. cbn [fst map te_resp te_post] in *.
    rewrite IH. reflexivity.
  Qed.

  (* checker 2502, clauses 2511-2514: on the records of a polite in-protocol history that starts
     with a reset no snapshot carries the flag and every snapshot passes the invariant check *)
  Theorem corridor_chk_snapshots k s0 cs : 0 <= cend -> k = MAll \/ k = MTurn ->
    co_bad s0 = false -> (forall j, admb cend n (co_draws s0 j) = true) -> (k = MTurn -> n <> O) ->
    in_protocol (trace S k (init s0) Fresh (CReset :: cs)) ->
    polite [] (trace S k (init s0) Fresh (CReset :: cs)) ->
    forall r sn, In (r, sn) (fst (run_snap S (fun s => s) k (init s0) (CReset :: cs))) ->
      sn_bad sn = false /\ snap_chk cend n sn = 0.
  Proof.
    intros Hc Hk Hb Hd Hn Hp Hpol r sn Hin.
    rewrite (run_snap_trace k (CReset :: cs) (init s0) Fresh) in Hin.
    apply in_map_iff in Hin. destruct Hin as (e & Ee & He). injection Ee as <- <-.
    destruct (corridor_no_error_arm k s0 (CReset :: cs) Hk Hb Hd Hp Hpol e He) as (_ & B2 & _ & C2 & _).
    split; [exact B2|]. apply snap_chk_complete; [exact Hc|]. apply C2.
    (* the phase after any entry of a history that starts with a successful reset is not Fresh *)
    clear C2 B2. cbn [trace] in He.
    destruct (do_call S k (init s0) CReset) as [r0 m1] eqn:E0.
    assert (Hr0 : exists obs, r0 = RObs obs).
    { destruct Hk as [-> | ->]; cbn [do_call] in E0.
      - destruct (all_reset_reports_learning S (init s0)) as (obs & m' & E & _). rewrite E in E0.
        injection E0 as <- _. eauto.
      - destruct (turn_reset_first_turn S (init s0)) as [(Eo & _)|(a0 & rest & ob & m' & _ & E & _)].
        + exfalso. apply (corridor_order_nonempty cend n (Hn eq_refl) Eo).
        + rewrite E in E0. injection E0 as <- _. eauto. }
    destruct Hr0 as [obs ->]. destruct He as [<-|He]; [cbn; discriminate|].
    cbn [next_phase] in He.
    assert (G : forall cs' m ph, ph <> Fresh -> forall e', In e' (trace S k m ph cs') ->
                  next_phase (te_ph e') (te_resp e') <> Fresh).
    { induction cs' as [|c' cs' IH]; intros m ph Hph e' He'; cbn [trace] in He'; [destruct He'|].
      destruct (do_call S k m c') as [r' m'].
      assert (Hn' : next_phase ph r' <> Fresh).
      { destruct r' as [?|o| | |]; cbn; try exact Hph; try discriminate. destruct (o_all o); discriminate. }
      destruct He' as [<-|He']; [exact Hn'|]. apply (IH m' _ Hn' e' He'). }
    apply (G cs m1 Live ltac:(discriminate) e He).
  Qed.
End NoErrorArm.

(* ---- the wrapper stacks over the corridor ------------------------------------------------------
   The packaged wrappers of Ctl/Stack.v over corridor_sim meet the hypotheses of the C08 stack
   theorems: equality is a congruence of the corridor, its fused getter ignores the fusion matrix,
   and the inner reset forgets everything but the generator (co_reset_forgets).  Stated for ANY two
   manager-over-stack states (done_agents, turn pointer, wrapper flags, message tables, positions,
   rewards arbitrary: in particular a state reached by any history against a new object) whose
   innermost generators are in the same state. *)
Lemma corridor_usim_reset_forgets cend n s1 s2 : same_seed s1 s2 ->
  admb cend n (co_draws s1 (co_ep s1)) = true ->
  sim_reset (corridor_usim cend n) s1 = sim_reset (corridor_usim cend n) s2.
Proof. apply co_reset_forgets. Qed.

Theorem corridor_stack_super cend n mapping k (m1 m2 : mstate (wst cstate Z)) cs :
  mgr_ok (corr_super cend n mapping) k ->
  same_seed (w_sim (m_sim m1)) (w_sim (m_sim m2)) ->
  admb cend n (co_draws (w_sim (m_sim m1)) (co_ep (w_sim (m_sim m1)))) = true ->
  fst (run (corr_super cend n mapping) k m1 (CReset :: cs)) =
  fst (run (corr_super cend n mapping) k m2 (CReset :: cs)).
Proof.
  intros Ok Hs Ha. unfold corr_super.
  apply (episode_rel _ (super_rel eq)
           (super_congr (corridor_sim cend n) mapping (fun _ => None) eq (congr_eq _)) k m1 m2 cs Ok).
  apply super_reset_rel. apply co_reset_forgets; assumption.
Qed.

Theorem corridor_stack_comm cend n k (m1 m2 : mstate (cst cstate Z)) cs :
  mgr_ok (corr_comm cend n) k ->
  same_seed (c_sim (m_sim m1)) (c_sim (m_sim m2)) ->
  admb cend n (co_draws (c_sim (m_sim m1)) (co_ep (c_sim (m_sim m1)))) = true ->
  fst (run (corr_comm cend n) k m1 (CReset :: cs)) = fst (run (corr_comm cend n) k m2 (CReset :: cs)).
Proof.
  intros Ok Hs Ha. unfold corr_comm.
  apply (episode_rel _ (comm_rel eq)
           (comm_congr (corridor_sim cend n) _ eq (congr_eq _) (fobs_congr_eq _)) k m1 m2 cs Ok).
  apply comm_reset_rel. apply co_reset_forgets; assumption.
Qed.

Theorem corridor_stack_sar cend n ks k (m1 m2 : mstate cstate) cs :
  mgr_ok (corr_sar cend n ks) k ->
  same_seed (m_sim m1) (m_sim m2) ->
  admb cend n (co_draws (m_sim m1) (co_ep (m_sim m1))) = true ->
  fst (run (corr_sar cend n ks) k m1 (CReset :: cs)) = fst (run (corr_sar cend n ks) k m2 (CReset :: cs)).
Proof.
  intros Ok Hs Ha. unfold corr_sar.
  apply (episode_rel _ eq (sar_congr eq ks _ _ (congr_eq _)) k m1 m2 cs Ok).
  apply sar_reset_rel. apply corridor_usim_reset_forgets; assumption.
Qed.

(* depth three: SuperAgentWrapper over CommunicationHandshakeWrapper over Ravel/Flatten wrappers *)
Theorem corridor_stack_deep cend n ks mapping k
        (m1 m2 : mstate (wst (cst cstate upoint) (cact upoint))) cs :
  mgr_ok (corr_deep cend n ks mapping) k ->
  same_seed (c_sim (w_sim (m_sim m1))) (c_sim (w_sim (m_sim m2))) ->
  admb cend n (co_draws (c_sim (w_sim (m_sim m1))) (co_ep (c_sim (w_sim (m_sim m1))))) = true ->
  fst (run (corr_deep cend n ks mapping) k m1 (CReset :: cs)) =
  fst (run (corr_deep cend n ks mapping) k m2 (CReset :: cs)).
Proof.
  intros Ok Hs Ha. unfold corr_deep in *.
  pose proof (sar_congr eq ks (corr_spaces cend n) _ (congr_eq (corridor_usim cend n))) as C1.
  fold (corr_sar cend n ks) in C1.
  pose proof (comm_congr _ _ eq C1 (drop_fm_congr _ _ C1)) as C2.
  apply (episode_rel _ (super_rel (comm_rel eq))
           (super_congr _ mapping (fun _ => None) (comm_rel eq) C2) k m1 m2 cs Ok).
  apply super_reset_rel, comm_reset_rel. unfold corr_sar. apply sar_reset_rel.
  apply corridor_usim_reset_forgets; assumption.
Qed.

(* used versus fresh, literally: a manager over the super-agent wrapper over the corridor, driven
   through any history h, then re-seeded, against a new stack with the same seed *)
Definition w_reseed {Act : Type} (w : wst cstate Act) (f : nat -> list Z) (j : nat) : wst cstate Act :=
  {| w_sim := reseed (w_sim w) f j; w_orep := w_orep w; w_rrep := w_rrep w; w_log := w_log w |}.
Definition mw_reseed {Act : Type} (m : mstate (wst cstate Act)) (f : nat -> list Z) (j : nat) :=
  {| m_sim := w_reseed (m_sim m) f j; m_done := m_done m; m_ptr := m_ptr m |}.

Theorem corridor_stack_super_used_vs_fresh cend n mapping k (w0 : wst cstate Z) h cs f j :
  mgr_ok (corr_super cend n mapping) k -> admb cend n (f j) = true ->
  fst (run (corr_super cend n mapping) k
           (mw_reseed (snd (run (corr_super cend n mapping) k (init w0) h)) f j) (CReset :: cs)) =
  fst (run (corr_super cend n mapping) k (init (w_reseed w0 f j)) (CReset :: cs)).
Proof.
  intros Ok Ha. apply corridor_stack_super; [exact Ok|split; reflexivity|exact Ha].
Qed.

(* the purity hypothesis of the C01 / C07 theorems holds on every level of the stacks *)
Lemma corridor_usim_done_stable cend n : done_stable (corridor_usim cend n).
Proof.
  assert (F : forall s s', greach (corridor_usim cend n) s s' -> co_pos s' = co_pos s).
  { induction 1 as [s|s s' a _ IH|s s' a _ IH]; [reflexivity| |];
      cbn [corridor_usim sim_obs sim_reward] in IH.
    - destruct (co_obs cend s a) as [o s1] eqn:E. cbn [snd] in IH.
      destruct (co_obs_frame cend s a) as [F|F]; rewrite E in F; cbn [snd] in F; subst s1; exact IH.
    - destruct (co_reward_frame s a) as (E1 & _). congruence. }
  intros s s' a G. cbn [corridor_usim sim_done]. unfold co_done. rewrite (F s s' G). reflexivity.
Qed.

Theorem corridor_stack_done_stable cend n mapping ks :
  done_stable (corr_super cend n mapping) /\ done_stable (corr_comm cend n) /\
  done_stable (corr_sar cend n ks) /\ done_stable (corr_deep cend n ks mapping).
Proof.
  assert (Fg : forall St Obs Info Act (S0 : simulation St Obs Info Act) s a (fm : Comms.row),
             greach S0 s (snd (drop_fm S0 s a fm))).
  { intros. unfold drop_fm. eapply gr_obs. constructor. }
  pose proof (sar_done_stable ks (corr_spaces cend n) _ (corridor_usim_done_stable cend n)) as D3.
  split; [apply super_done_stable, corridor_done_stable|].
  split; [apply comm_done_stable; [apply Fg|apply corridor_done_stable]|].
  split; [exact D3|].
  unfold corr_deep. apply super_done_stable. apply comm_done_stable; [apply Fg|exact D3].
Qed.

(* hence e.g. C07's "no agent is reported done twice in an episode" for the turn-based manager over
   the three-layer stack *)
Theorem corridor_deep_done_once_turn cend n ks mapping w0 cs :
  in_protocol (trace (corr_deep cend n ks mapping) MTurn (init w0) Fresh cs) ->
  NoDup (ep_dones (trace (corr_deep cend n ks mapping) MTurn (init w0) Fresh cs) []).
Proof.
  apply once_turn. apply (corridor_stack_done_stable cend n mapping ks).
Qed.

(* ---- executable mirror of `polite`, for the non-vacuity example -------------------------------- *)
Lemma nodupb_ok l : nodupb l = true -> NoDup l.
Proof.
  induction l as [|a l IH]; cbn; [constructor|]. rewrite andb_true_iff, negb_true_iff.
  intros [H1 H2]. constructor; [apply memb_false_In, H1|apply IH, H2].
Qed.

Fixpoint politeb {St Obs Info Act : Type} (asked : list nat) (t : list (@tentry St Obs Info Act)) : bool :=
  match t with
  | [] => true
  | e :: t' =>
      match te_call e with
      | CStep acts sh => nodupb (map fst acts) && nodupb (map fst sh) &&
                         forallb (fun a => memb a asked) (map fst acts) &&
                         forallb (fun a => memb a asked) (map fst sh)
      | CReset => true
      end && politeb (live_keys (te_resp e) asked) t'
  end.

Lemma politeb_ok {St Obs Info Act : Type} (t : list (@tentry St Obs Info Act)) :
  forall asked, politeb asked t = true -> polite asked t.
Proof.
  induction t as [|e t IH]; intros asked H; cbn [politeb polite] in *; [exact I|].
  apply andb_true_iff in H. destruct H as [H1 H2]. split; [|apply IH, H2].
  destruct (te_call e) as [|acts sh]; [exact I|].
  rewrite !andb_true_iff in H1. destruct H1 as [[[A B] C] D].
  split; [apply nodupb_ok, A|]. split; [apply nodupb_ok, B|]. rewrite forallb_forall in C, D.
  split; intros a Ha; apply memb_In; auto.
Qed.

(* ---- non-vacuity: end = 5, three agents drawn onto cells 1, 2, 3 --------------------------------
   all-step, first step: agent0 stays (-1); agent1 moves RIGHT into agent2 (-5, agent2 -2);
   agent2 moves RIGHT onto the last cell: + end^2, reported done with 25 - 2 = 23 and taken off
   the array; second step: agent0 bumps into agent1 (-5 / -2), agent1 moves on (-1): -3.
   turn-based: the penalties of the offended agents are delivered on their own turns; agent2
   arrives on its turn and is reported done (with its 25) when the cycle comes back to it. *)
Definition nv_s0 : cstate := co_init (fun _ => [1; 2; 3]).
Definition nv_st (l : list (nat * Z)) : call Z := CStep l l.
Definition nv_cs : list (call Z) :=
  [CReset; nv_st [(0%nat, 1); (1%nat, 2); (2%nat, 2)]; nv_st [(0%nat, 2); (1%nat, 2)]].
Definition nv_cs_turn : list (call Z) :=
  [CReset; nv_st [(0%nat, 2)]; nv_st [(1%nat, 2)]; nv_st [(2%nat, 2)]; nv_st [(0%nat, 1)];
   nv_st [(1%nat, 2)]].
Definition mkobs (p l r : Z) : cobs := {| ob_pos := p; ob_left := l; ob_right := r |}.
Definition mkout1 (a : nat) (o : cobs) (r : Z) (d : bool) : resp cobs unit :=
  ROut {| o_obs := [(a, o)]; o_rew := [(a, r)]; o_done := [(a, d)]; o_info := [(a, tt)]; o_all := false |}.

Lemma corridor_nonvacuous :
  let S := corridor_sim 5 3 in
  (forall j, admb 5 3 (co_draws nv_s0 j) = true) /\ co_bad nv_s0 = false /\
  in_protocol (trace S MAll (init nv_s0) Fresh nv_cs) /\
  polite [] (trace S MAll (init nv_s0) Fresh nv_cs) /\
  fst (run S MAll (init nv_s0) nv_cs) =
    [RObs [(0%nat, mkobs 1 0 1); (1%nat, mkobs 2 1 1); (2%nat, mkobs 3 1 0)];
     ROut {| o_obs := [(0%nat, mkobs 1 0 1); (1%nat, mkobs 2 1 0); (2%nat, mkobs 4 0 0)];
             o_rew := [(0%nat, -1); (1%nat, -5); (2%nat, 23)];
             o_done := [(0%nat, false); (1%nat, false); (2%nat, true)];
             o_info := [(0%nat, tt); (1%nat, tt); (2%nat, tt)]; o_all := false |};
     ROut {| o_obs := [(0%nat, mkobs 1 0 0); (1%nat, mkobs 3 0 0)];
             o_rew := [(0%nat, -5); (1%nat, -3)];
             o_done := [(0%nat, false); (1%nat, false)];
             o_info := [(0%nat, tt); (1%nat, tt)]; o_all := false |}] /\
  map snd (fst (run_snap S (fun s => s) MAll (init nv_s0) nv_cs)) =
    [{| sn_pos := [1; 2; 3]; sn_arr := [None; Some 0%nat; Some 1%nat; Some 2%nat; None];
        sn_rew := [0; 0; 0]; sn_bad := false |};
     {| sn_pos := [1; 2; 4]; sn_arr := [None; Some 0%nat; Some 1%nat; None; None];
        sn_rew := [0; 0; 0]; sn_bad := false |};
     {| sn_pos := [1; 3; 4]; sn_arr := [None; Some 0%nat; None; Some 1%nat; None];
        sn_rew := [0; 0; 0]; sn_bad := false |}] /\
  m_done (snd (run S MAll (init nv_s0) nv_cs)) = [2%nat] /\
  in_protocol (trace S MTurn (init nv_s0) Fresh nv_cs_turn) /\
  polite [] (trace S MTurn (init nv_s0) Fresh nv_cs_turn) /\
  fst (run S MTurn (init nv_s0) nv_cs_turn) =
    [RObs [(0%nat, mkobs 1 0 1)];
     mkout1 1 (mkobs 2 1 1) (-2) false; mkout1 2 (mkobs 3 1 0) (-2) false;
     mkout1 0 (mkobs 1 0 1) (-5) false; mkout1 1 (mkobs 2 1 0) (-5) false;
     ROut {| o_obs := [(2%nat, mkobs 4 1 0); (0%nat, mkobs 1 0 0)];
             o_rew := [(2%nat, 25); (0%nat, -1)];
             o_done := [(2%nat, true); (0%nat, false)];
             o_info := [(2%nat, tt); (0%nat, tt)]; o_all := false |}].
Proof.
  cbv zeta. split; [intros j; reflexivity|]. split; [reflexivity|].
  split; [apply in_protocolb_ok; vm_compute; reflexivity|].
  split; [apply politeb_ok; vm_compute; reflexivity|].
  split; [vm_compute; reflexivity|]. split; [vm_compute; reflexivity|].
  split; [vm_compute; reflexivity|].
  split; [apply in_protocolb_ok; vm_compute; reflexivity|].
  split; [apply politeb_ok; vm_compute; reflexivity|]. vm_compute. reflexivity.
Qed.
