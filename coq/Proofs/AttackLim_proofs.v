(* C11, the clauses beyond eligibility, for every oracle and every visibility function:
   limits (per step / per encoding / per window cell), no agent hit twice unless stacked,
   ammunition arithmetic, and "no eligible target is skipped at full accuracy". *)
From Coq Require Import ZArith List Bool Arith Lia Permutation.
From Abm Require Import Base.Sx Grid.Overlap Grid.Grid Grid.Move Grid.Attack Grid.Vis Grid.AttackRun
  Grid.AttackChk Proofs.Grid_proofs Proofs.Move_proofs Proofs.Attack_proofs Proofs.GridChk_proofs.
Import ListNotations.
Open Scope Z_scope.

(* ---- lists --------------------------------------------------------------------------------------- *)
Lemma NoDup_app_intro {X} (l m : list X) :
  NoDup l -> NoDup m -> (forall x, In x l -> In x m -> False) -> NoDup (l ++ m).
Proof.
  induction l as [|a l IH]; intros Hl Hm Hd; cbn; [exact Hm|].
  inversion Hl as [|? ? Ha Hl']; subst. constructor.
  - rewrite in_app_iff. intros [C|C]; [contradiction|]. apply (Hd a); [left; reflexivity|exact C].
  - apply IH; [exact Hl'|exact Hm|]. intros x Hx. apply Hd. right. exact Hx.
Qed.

Lemma NoDup_app_l {X} (l m : list X) : NoDup (l ++ m) -> NoDup l.
Proof.
  induction l as [|a l IH]; cbn; intros H; [constructor|].
  inversion H as [|? ? Ha Hl]; subst. constructor; [|apply IH, Hl].
  intros C. apply Ha, in_or_app. left. exact C.
Qed.

Lemma NoDup_same_length {X} (l m : list X) :
  NoDup l -> NoDup m -> (forall x, In x l <-> In x m) -> length l = length m.
Proof.
  intros Hl Hm H. apply Nat.le_antisymm; apply NoDup_incl_length; try assumption;
    intros x Hx; apply H, Hx.
Qed.

Lemma NoDup_map_pair {X Y} (r : X) (cs : list Y) : NoDup cs -> NoDup (map (fun c => (r, c)) cs).
Proof.
  induction cs as [|c cs IH]; intros H; cbn; [constructor|].
  inversion H as [|? ? Hc Hcs]; subst. constructor; [|apply IH, Hcs].
  intros C. apply in_map_iff in C as (c' & E & Hc'). injection E as <-. contradiction.
Qed.

Lemma NoDup_zrange_from n : forall lo, NoDup (zrange_from lo n).
Proof.
  induction n as [|n IH]; intros lo; cbn [zrange_from]; constructor; [|apply IH].
  rewrite zrange_from_In. lia.
Qed.

Lemma NoDup_prod (cs : list Z) : NoDup cs -> forall n lo,
  NoDup (flat_map (fun dr => map (fun dc => (dr, dc)) cs) (zrange_from lo n)).
Proof.
  intros Hcs. induction n as [|n IH]; intros lo; cbn [zrange_from flat_map]; [constructor|].
  apply NoDup_app_intro.
  - apply NoDup_map_pair, Hcs.
  - apply IH.
  - intros [r c] H1 H2. apply in_map_iff in H1 as (c' & E & _). injection E as <- _.
    apply in_flat_map in H2 as (r' & Hr' & H2). apply in_map_iff in H2 as (c'' & E & _).
    injection E as -> _. apply zrange_from_In in Hr'. lia.
Qed.

Lemma NoDup_window R : NoDup (window R).
Proof. unfold window, zrange. apply NoDup_prod, NoDup_zrange_from. Qed.

(* ---- the deterministic criteria as a boolean ------------------------------------------------------ *)
Definition critb (s : gstate) (cf : acfg) (att v : nat) : bool :=
  negb (Nat.eqb v att) &&
  match agent s v with
  | Some b => a_active b && memZ (a_enc b) (c_mapping cf)
  | None => false
  end.

Lemma critb_crit s cf att v : critb s cf att v = true <-> crit s cf att v.
Proof.
  unfold critb, crit. rewrite andb_true_iff, negb_true_iff, Nat.eqb_neq. split.
  - intros [N H]. split; [exact N|]. destruct (agent s v) as [b|]; [|discriminate].
    apply andb_true_iff in H as [A B]. exists b. auto.
  - intros [N (b & Hb & A & B)]. split; [exact N|]. rewrite Hb, A, B. reflexivity.
Qed.

Definition draws_ok (o : oracle) : Prop := Forall (fun u => u <= HD) (o_unif o).

(* the uniform draw is the only thing between basic_criteria and critb *)
Lemma basic_criteria_le s cf att o v b o' :
  basic_criteria s cf att o v = AOk b o' ->
  (b = true -> critb s cf att v = true) /\ o_choice o' = o_choice o /\
  (draws_ok o -> draws_ok o' /\ (c_accuracy cf = HD -> b = critb s cf att v)).
Proof.
  unfold basic_criteria, critb. destruct (Nat.eqb v att); cbn [negb andb].
  { intros E. injection E as <- <-. split; [discriminate|]. split; [reflexivity|]. intros D. auto. }
  destruct (agent s v) as [c|].
  2:{ intros E. injection E as <- <-. split; [discriminate|]. split; [reflexivity|]. intros D. auto. }
  destruct (a_active c); cbn [negb andb].
  2:{ intros E. injection E as <- <-. split; [discriminate|]. split; [reflexivity|]. intros D. auto. }
  destruct (memZ (a_enc c) (c_mapping cf)); cbn [negb].
  2:{ intros E. injection E as <- <-. split; [discriminate|]. split; [reflexivity|]. intros D. auto. }
  destruct (o_unif o) as [|u us] eqn:Eu; [discriminate|].
  intros E. injection E as <- <-. split; [reflexivity|]. split; [reflexivity|].
  unfold draws_ok. rewrite Eu. cbn [o_unif]. intros D. inversion D as [|? ? Hu Hus]; subst.
  split; [exact Hus|]. intros ->. destruct (HD <? u) eqn:E; [apply Z.ltb_lt in E; lia|reflexivity].
Qed.

Lemma filter_criteria_facts s cf att cands : forall o l o',
  filter_criteria s cf att o cands = AOk l o' ->
  (forall v, In v l -> In v cands /\ critb s cf att v = true) /\
  (NoDup cands -> NoDup l) /\ o_choice o' = o_choice o /\
  (draws_ok o -> draws_ok o' /\ (c_accuracy cf = HD -> l = filter (critb s cf att) cands)).
Proof.
  induction cands as [|c r IH]; intros o l o' H; cbn [filter_criteria] in H.
  - injection H as <- <-. split; [intros v []|]. split; [auto|]. split; [reflexivity|]. auto.
  - destruct (basic_criteria s cf att o c) as [b o1|] eqn:Eb; [|discriminate].
    destruct (filter_criteria s cf att o1 r) as [l1 o2|] eqn:Ef; [|discriminate].
    injection H as <- <-.
    destruct (basic_criteria_le _ _ _ _ _ _ _ Eb) as (B1 & B2 & B3).
    destruct (IH _ _ _ Ef) as (I1 & I2 & I3 & I4).
    split; [|split; [|split; [congruence|]]].
    + intros v Hv. destruct b.
      * destruct Hv as [<-|Hv]; [split; [left; reflexivity|apply B1; reflexivity]|].
        destruct (I1 v Hv). split; [right|]; assumption.
      * destruct (I1 v Hv). split; [right|]; assumption.
    + intros Hnd. inversion Hnd as [|? ? Hc Hr]; subst. specialize (I2 Hr).
      destruct b; [|exact I2]. constructor; [|exact I2]. intros C. apply Hc, (I1 c C).
    + intros D. destruct (B3 D) as [D1 Hb]. destruct (I4 D1) as [D2 Hl]. split; [exact D2|].
      intros Hacc. cbn [filter]. rewrite <- (Hb Hacc), <- (Hl Hacc). reflexivity.
Qed.

(* ---- candidates: an agent stands in one cell only --------------------------------------------------- *)
Lemma cands_at_NoDup vis s cf att p d : ginv s -> NoDup (cands_at vis s cf att p d).
Proof.
  intros G. unfold cands_at. destruct (vis s att (c_range cf) d && inside s _); [|constructor].
  apply (gi_nodup _ _ G).
Qed.

Lemma cands_at_unique vis s cf att p d d' v : ginv s ->
  In v (cands_at vis s cf att p d) -> In v (cands_at vis s cf att p d') -> d = d'.
Proof.
  intros G H1 H2. apply cands_at_In in H1 as (_ & _ & H1), H2 as (_ & _ & H2).
  destruct (gi_cell_agent _ _ G _ _ H1) as (b & Hb & _ & P1).
  destruct (gi_cell_agent _ _ G _ _ H2) as (b' & Hb' & _ & P2).
  assert (b' = b) by congruence. subst b'. rewrite P1 in P2. injection P2 as E1 E2.
  destruct d, d'. cbn [fst snd] in *. f_equal; lia.
Qed.

(* the candidates on window cell d that pass the criteria are the eligible agents at offset d *)
Lemma eligible_offset_cands vis s cf att p d v :
  ginv s -> att_pos s att = Some p ->
  eligible vis s cf att v = true -> offset_of s att v = Some d ->
  In d (window (c_range cf)) /\ In v (cands_at vis s cf att p d) /\ critb s cf att v = true.
Proof.
  intros G Hp He Ho. unfold eligible in He. rewrite Ho in He.
  apply andb_true_iff in He as [Nv He]. destruct (agent s v) as [b|] eqn:Hb; [|discriminate].
  apply andb_true_iff in He as [He Hvis]. apply andb_true_iff in He as [He Hw].
  apply andb_true_iff in He as [Hact Hm].
  unfold offset_of, apos in Ho. rewrite Hb, Hp in Ho.
  destruct (a_pos b) as [q|] eqn:Hq; [|discriminate]. injection Ho as <-.
  destruct (gi_agent_cell _ _ G v b q ltac:(discriminate) Hb Hact Hq) as [Hin Hins].
  assert (Eq : (fst p + fst (fst q - fst p, snd q - snd p), snd p + snd (fst q - fst p, snd q - snd p)) = q).
  { destruct q, p. cbn [fst snd]. f_equal; lia. }
  split; [|split].
  - apply window_In. unfold in_window, R in Hw. rewrite !andb_true_iff, !Z.leb_le in Hw. lia.
  - unfold cands_at. fold (R cf). rewrite Eq, Hvis, Hins. exact Hin.
  - unfold critb. rewrite Nv, Hb, Hact, Hm. reflexivity.
Qed.

Lemma eligible_has_offset vis s cf att v : eligible vis s cf att v = true ->
  exists d, offset_of s att v = Some d.
Proof.
  unfold eligible. destruct (negb (Nat.eqb v att)); [|discriminate]. destruct (agent s v); [|discriminate].
  destruct (offset_of s att v) as [d|]; [exists d; reflexivity|discriminate].
Qed.

Lemma eligible_lt vis s cf att v : eligible vis s cf att v = true -> (v < length (g_agents s))%nat.
Proof.
  unfold eligible. destruct (negb (Nat.eqb v att)); [|discriminate].
  destruct (agent s v) as [b|] eqn:Hb; [|discriminate]. intros _. apply nth_error_Some.
  unfold agent in Hb. congruence.
Qed.

(* ---- scan_all ---------------------------------------------------------------------------------------- *)
Lemma scan_all_facts vis s cf att p : ginv s -> forall ds o l o',
  scan_all vis s cf att p o ds = AOk l o' ->
  o_choice o' = o_choice o /\ (NoDup ds -> NoDup l) /\
  (draws_ok o -> draws_ok o' /\
     (c_accuracy cf = HD ->
      l = flat_map (fun d => filter (critb s cf att) (cands_at vis s cf att p d)) ds)).
Proof.
  intros G. induction ds as [|d r IH]; intros o l o' H; cbn [scan_all] in H.
  - injection H as <- <-. split; [reflexivity|]. split; [constructor|]. auto.
  - destruct (filter_criteria s cf att o (cands_at vis s cf att p d)) as [l1 o1|] eqn:Ef; [|discriminate].
    destruct (scan_all vis s cf att p o1 r) as [l2 o2|] eqn:Es; [|discriminate].
    injection H as <- <-.
    destruct (filter_criteria_facts _ _ _ _ _ _ _ Ef) as (F1 & F2 & F3 & F4).
    destruct (IH _ _ _ Es) as (I1 & I2 & I3).
    split; [congruence|]. split.
    + intros Hnd. inversion Hnd as [|? ? Hd Hr]; subst.
      apply NoDup_app_intro; [apply F2, cands_at_NoDup, G|apply I2, Hr|].
      intros x H1 H2. destruct (F1 x H1) as [C1 _].
      destruct (scan_all_sound _ _ _ _ _ _ _ _ _ Es x H2) as (d' & Hd' & C2 & _).
      rewrite (cands_at_unique vis s cf att p d d' x G C1 C2) in Hd. contradiction.
    + intros D. destruct (F4 D) as [D1 Hl1]. destruct (I3 D1) as [D2 Hl2]. split; [exact D2|].
      intros Hacc. cbn [flat_map]. rewrite <- (Hl1 Hacc), <- (Hl2 Hacc). reflexivity.
Qed.

(* at full accuracy the scan finds exactly the eligible agents *)
Lemma scan_full_eligible vis s cf att p v : ginv s -> att_pos s att = Some p ->
  In v (flat_map (fun d => filter (critb s cf att) (cands_at vis s cf att p d)) (window (c_range cf)))
  <-> eligible vis s cf att v = true.
Proof.
  intros G Hp. rewrite in_flat_map. split.
  - intros (d & Hd & Hv). apply filter_In in Hv as [Hc Hcr]. apply critb_crit in Hcr.
    apply (eligible_intro vis s cf att p d v G Hp Hd Hc Hcr).
  - intros He. destruct (eligible_has_offset _ _ _ _ _ He) as (d & Ho).
    destruct (eligible_offset_cands vis s cf att p d v G Hp He Ho) as (Hd & Hc & Hcr).
    exists d. split; [exact Hd|]. apply filter_In. auto.
Qed.

Lemma eligible_all_In vis s cf att v : In v (eligible_all vis s cf att) <-> eligible vis s cf att v = true.
Proof.
  unfold eligible_all, agent_ids. rewrite filter_In, in_seq. split; [intros [_ H]; exact H|].
  intros H. split; [|exact H]. pose proof (eligible_lt _ _ _ _ _ H). lia.
Qed.

Lemma eligible_all_NoDup vis s cf att : NoDup (eligible_all vis s cf att).
Proof. unfold eligible_all, agent_ids. apply NoDup_filter, seq_NoDup. Qed.

(* ---- _subset_attackables --------------------------------------------------------------------------- *)
Lemma subset_facts cf o l n h o' : subset_attackables cf o l n = AOk h o' ->
  incl h l /\ o_unif o' = o_unif o /\
  Z.of_nat (length h) = (if c_stacked cf then n else Z.min n (Z.of_nat (length l))) /\
  Z.of_nat (length h) <= n /\ (c_stacked cf = false -> NoDup l -> NoDup h).
Proof.
  intros H. split; [apply (subset_sound _ _ _ _ _ _ H)|]. revert H. unfold subset_attackables.
  destruct (c_stacked cf) eqn:Es; cbn [negb andb].
  - destruct (o_choice o) as [|ch cs]; [discriminate|].
    destruct (choice_ok l n true ch) eqn:Ec; [|discriminate]. intros E. injection E as <- <-.
    unfold choice_ok in Ec. apply andb_true_iff in Ec as [Ec _]. apply andb_true_iff in Ec as [Ec _].
    apply Z.eqb_eq in Ec. split; [reflexivity|]. split; [exact Ec|]. split; [lia|discriminate].
  - destruct (Z.of_nat (length l) <? n) eqn:El.
    + intros E. injection E as <- <-. apply Z.ltb_lt in El. split; [reflexivity|].
      split; [lia|]. split; [lia|auto].
    + destruct (o_choice o) as [|ch cs]; [discriminate|].
      destruct (choice_ok l n false ch) eqn:Ec; [|discriminate]. intros E. injection E as <- <-.
      unfold choice_ok in Ec. apply andb_true_iff in Ec as [Ec Hnd]. apply andb_true_iff in Ec as [Ec _].
      apply Z.eqb_eq in Ec. apply Z.ltb_ge in El. cbn [orb] in Hnd. apply nodupb_NoDup in Hnd.
      split; [reflexivity|]. split; [lia|]. split; [lia|auto].
Qed.

(* ---- BinaryAttackActor --------------------------------------------------------------------------------- *)
Theorem det_binary_limit vis s cf att p o n st hits o' :
  0 <= n -> det_binary vis s cf att p o n = AOk (st, hits) o' -> Z.of_nat (length hits) <= n.
Proof.
  intros Hn. unfold det_binary. destruct (n =? 0); [intros E; injection E as <- <- <-; cbn; lia|].
  destruct (scan_all vis s cf att p o (window (c_range cf))) as [l o1|]; [|discriminate].
  destruct l as [|x l]; [intros E; injection E as <- <- <-; cbn; lia|].
  destruct (subset_attackables cf o1 (x :: l) n) as [h o2|] eqn:Eh; [|discriminate].
  intros E. injection E as <- <- <-. apply (subset_facts _ _ _ _ _ _ Eh).
Qed.

Theorem det_binary_nodup vis s cf att p o n st hits o' :
  ginv s -> c_stacked cf = false ->
  det_binary vis s cf att p o n = AOk (st, hits) o' -> NoDup hits.
Proof.
  intros G Hs. unfold det_binary. destruct (n =? 0); [intros E; injection E as <- <- <-; constructor|].
  destruct (scan_all vis s cf att p o (window (c_range cf))) as [l o1|] eqn:Esc; [|discriminate].
  destruct (scan_all_facts vis s cf att p G _ _ _ _ Esc) as (_ & Hnd & _).
  specialize (Hnd (NoDup_window _)).
  destruct l as [|x l]; [intros E; injection E as <- <- <-; constructor|].
  destruct (subset_attackables cf o1 (x :: l) n) as [h o2|] eqn:Eh; [|discriminate].
  intros E. injection E as <- <- <-. apply (subset_facts _ _ _ _ _ _ Eh); assumption.
Qed.

Definition per (cf : acfg) (avail req : Z) : Z :=
  if c_stacked cf then (if 0 <? avail then req else 0) else Z.min req avail.

Lemma per_count cf (l : list nat) n :
  l <> [] -> (if c_stacked cf then n else Z.min n (Z.of_nat (length l))) = per cf (Z.of_nat (length l)) n.
Proof.
  intros Hl. unfold per. destruct (c_stacked cf); [|reflexivity].
  destruct l; [congruence|]. cbn [length]. destruct (0 <? Z.of_nat (S (length l))) eqn:E; [reflexivity|].
  apply Z.ltb_ge in E. lia.
Qed.

Lemma per_empty cf n : 0 <= n -> per cf 0 n = 0.
Proof. intros Hn. unfold per. destruct (c_stacked cf); [reflexivity|lia]. Qed.

Lemma per_zero cf a : 0 <= a -> per cf a 0 = 0.
Proof. intros Ha. unfold per. destruct (c_stacked cf); [destruct (0 <? a); reflexivity|lia]. Qed.

(* the scan at full accuracy has as many elements as there are eligible agents *)
Lemma scan_full_length vis s cf att p o l o' : ginv s -> att_pos s att = Some p ->
  c_accuracy cf = HD -> draws_ok o ->
  scan_all vis s cf att p o (window (c_range cf)) = AOk l o' ->
  NoDup l /\ (forall v, In v l <-> eligible vis s cf att v = true) /\ draws_ok o'.
Proof.
  intros G Hp Hacc D Esc.
  destruct (scan_all_facts vis s cf att p G _ _ _ _ Esc) as (_ & Hnd & Hf).
  destruct (Hf D) as [D' Hl]. split; [apply Hnd, NoDup_window|]. split; [|exact D'].
  intros v. rewrite (Hl Hacc). apply scan_full_eligible; assumption.
Qed.

Lemma expected_full_binary vis s cf att n :
  expected_full vis s cf att (ABinary n) = per cf (Z.of_nat (length (eligible_all vis s cf att))) n.
Proof. reflexivity. Qed.

Theorem det_binary_full vis s cf att p o n st hits o' :
  ginv s -> att_pos s att = Some p -> c_accuracy cf = HD -> draws_ok o -> 0 <= n ->
  det_binary vis s cf att p o n = AOk (st, hits) o' ->
  Z.of_nat (length hits) = expected_full vis s cf att (ABinary n).
Proof.
  intros G Hp Hacc D Hn. rewrite expected_full_binary. unfold det_binary.
  destruct (n =? 0) eqn:En.
  { intros E. injection E as <- <- <-. apply Z.eqb_eq in En. subst n. rewrite per_zero; [reflexivity|lia]. }
  destruct (scan_all vis s cf att p o (window (c_range cf))) as [l o1|] eqn:Esc; [|discriminate].
  destruct (scan_full_length vis s cf att p o l o1 G Hp Hacc D Esc) as (Hnd & Hiff & _).
  assert (El : length l = length (eligible_all vis s cf att)).
  { apply NoDup_same_length; [exact Hnd|apply eligible_all_NoDup|].
    intros v. rewrite Hiff, eligible_all_In. reflexivity. }
  rewrite <- El. destruct l as [|x l].
  { intros E. injection E as <- <- <-. cbn [length Z.of_nat]. rewrite per_empty; [reflexivity|exact Hn]. }
  destruct (subset_attackables cf o1 (x :: l) n) as [h o2|] eqn:Eh; [|discriminate].
  intros E. injection E as <- <- <-.
  destruct (subset_facts _ _ _ _ _ _ Eh) as (_ & _ & Hc & _). rewrite Hc. apply per_count. discriminate.
Qed.

(* ---- EncodingBasedAttackActor ------------------------------------------------------------------------ *)
Lemma filter_none {X} (f : X -> bool) l : (forall x, In x l -> f x = false) -> filter f l = [].
Proof.
  induction l as [|x l IH]; intros H; cbn; [reflexivity|].
  rewrite (H x (or_introl eq_refl)). apply IH. intros y Hy. apply H. right. exact Hy.
Qed.

Lemma filter_length_le {X} (f : X -> bool) l : (length (filter f l) <= length l)%nat.
Proof. induction l as [|x l IH]; cbn; [lia|]. destruct (f x); cbn; lia. Qed.

Definition cntE (s : gstate) (e : Z) (h : list nat) : Z :=
  Z.of_nat (length (filter (fun v => enc_of s v =? e) h)).

Lemma cntE_app s e h1 h2 : cntE s e (h1 ++ h2) = cntE s e h1 + cntE s e h2.
Proof. unfold cntE. rewrite filter_app, app_length. lia. Qed.

Lemma cntE_zero s e h : (forall v, In v h -> enc_of s v <> e) -> cntE s e h = 0.
Proof.
  intros H. unfold cntE. rewrite filter_none; [reflexivity|]. intros v Hv. apply Z.eqb_neq, H, Hv.
Qed.

Lemma cntE_le s e h : cntE s e h <= Z.of_nat (length h).
Proof. unfold cntE. pose proof (filter_length_le (fun v => enc_of s v =? e) h). lia. Qed.

Definition enc_expected (s : gstate) (cf : acfg) (attackable : list nat) (attack : list (Z * Z)) : Z :=
  sumZ (map (fun kv => per cf (Z.of_nat (length (filter (fun v => enc_of s v =? fst kv) attackable)))
                           (snd kv)) attack).

Lemma enc_expected_cons s cf attackable e0 n0 r :
  enc_expected s cf attackable ((e0, n0) :: r) =
  per cf (Z.of_nat (length (filter (fun v => enc_of s v =? e0) attackable))) n0
  + enc_expected s cf attackable r.
Proof. reflexivity. Qed.

Lemma enc_loop_facts s cf attackable : forall attack o h o',
  enc_loop s cf o attackable attack = AOk h o' ->
  o_unif o' = o_unif o /\
  (forall v, In v h -> In v attackable /\ In (enc_of s v) (map fst attack)) /\
  (Forall (fun kv => 0 <= snd kv) attack -> NoDup (map fst attack) ->
     forall e num, In (e, num) attack -> cntE s e h <= num) /\
  (c_stacked cf = false -> NoDup attackable -> NoDup (map fst attack) -> NoDup h) /\
  (Forall (fun kv => 0 <= snd kv) attack -> Z.of_nat (length h) = enc_expected s cf attackable attack).
Proof.
  induction attack as [|[e0 n0] r IH]; intros o h o' H; cbn [enc_loop] in H.
  - injection H as <- <-. split; [reflexivity|]. split; [intros v []|]. split; [intros _ _ e num []|].
    split; [constructor|reflexivity].
  - rewrite enc_expected_cons.
    destruct (filter (fun v => enc_of s v =? e0) attackable) as [|b0 bs] eqn:Eb.
    + destruct (IH _ _ _ H) as (I1 & I2 & I3 & I4 & I5).
      split; [exact I1|]. split; [|split; [|split]].
      * intros v Hv. destruct (I2 v Hv). split; [assumption|right; assumption].
      * intros Hpos Hnd e num [E|Hin].
        -- injection E as -> ->. inversion Hnd as [|? ? He0 _]; subst. inversion Hpos as [|? ? Hn0 _]; subst.
           cbn [snd] in Hn0. rewrite cntE_zero; [exact Hn0|]. intros v Hv C. apply He0. rewrite <- C. apply I2, Hv.
        -- inversion Hnd; subst. inversion Hpos; subst. apply I3; assumption.
      * intros Hs Hna Hnd. inversion Hnd; subst. apply I4; assumption.
      * intros Hpos. inversion Hpos as [|? ? Hn0 Hr]; subst. cbn [snd] in Hn0.
        cbn [length Z.of_nat]. rewrite (per_empty cf n0 Hn0), (I5 Hr). lia.
    + destruct (subset_attackables cf o (b0 :: bs) n0) as [h1 o1|] eqn:E1; [|discriminate].
      destruct (enc_loop s cf o1 attackable r) as [h2 o2|] eqn:E2; [|discriminate].
      injection H as <- <-.
      destruct (subset_facts _ _ _ _ _ _ E1) as (S1 & S2 & S3 & S4 & S5).
      destruct (IH _ _ _ E2) as (I1 & I2 & I3 & I4 & I5).
      assert (Hb : forall v, In v h1 -> In v attackable /\ enc_of s v = e0).
      { intros v Hv. apply S1 in Hv. rewrite <- Eb in Hv. apply filter_In in Hv as [A B].
        apply Z.eqb_eq in B. auto. }
      split; [congruence|]. split; [|split; [|split]].
      * intros v Hv. apply in_app_or in Hv as [Hv|Hv].
        -- destruct (Hb v Hv) as [A B]. split; [exact A|left; symmetry; exact B].
        -- destruct (I2 v Hv). split; [assumption|right; assumption].
      * intros Hpos Hnd e num Hin. inversion Hnd as [|? ? He0 Hndr]; subst.
        inversion Hpos as [|? ? Hn0 Hr]; subst. rewrite cntE_app. destruct Hin as [E|Hin].
        -- injection E as -> ->. rewrite (cntE_zero s e h2).
           ++ pose proof (cntE_le s e h1). lia.
           ++ intros v Hv C. apply He0. cbn [fst]. rewrite <- C. apply I2, Hv.
        -- rewrite (cntE_zero s e h1).
           ++ specialize (I3 Hr Hndr e num Hin). lia.
           ++ intros v Hv C. destruct (Hb v Hv) as [_ B]. apply He0. cbn [fst]. rewrite <- B, C.
              apply in_map_iff. exists (e, num). auto.
      * intros Hs Hna Hnd. inversion Hnd as [|? ? He0 Hndr]; subst. apply NoDup_app_intro.
        -- apply S5; [exact Hs|]. rewrite <- Eb. apply NoDup_filter, Hna.
        -- apply I4; assumption.
        -- intros x H1 H2. destruct (Hb x H1) as [_ B]. apply He0. cbn [fst]. rewrite <- B. apply I2, H2.
      * intros Hpos. inversion Hpos as [|? ? Hn0 Hr]; subst.
        rewrite app_length, Nat2Z.inj_add, S3, (I5 Hr), per_count by discriminate. reflexivity.
Qed.

Lemma sumZ_zero {X} (f : X -> Z) l : (forall x, In x l -> f x = 0) -> sumZ (map f l) = 0.
Proof.
  induction l as [|x l IH]; intros H; cbn; [reflexivity|].
  rewrite (H x (or_introl eq_refl)). unfold sumZ in IH. rewrite IH; [reflexivity|].
  intros y Hy. apply H. right. exact Hy.
Qed.

Theorem det_encoding_limits vis s cf att p o l st hits o' :
  NoDup (map fst l) -> Forall (fun kv => 0 <= snd kv) l ->
  det_encoding vis s cf att p o l = AOk (st, hits) o' ->
  (forall e num, In (e, num) l -> Z.of_nat (length (filter (fun v => enc_of s v =? e) hits)) <= num) /\
  (forall v, In v hits -> In (enc_of s v) (map fst l)).
Proof.
  intros Hnd Hpos. unfold det_encoding. destruct (forallb _ l).
  - intros E. injection E as <- <- <-. split; [|intros v []]. intros e num Hin. cbn.
    rewrite Forall_forall in Hpos. apply (Hpos (e, num) Hin).
  - destruct (scan_all vis s cf att p o (window (c_range cf))) as [sc o1|]; [|discriminate].
    destruct (enc_loop s cf o1 sc l) as [h o2|] eqn:Eh; [|discriminate].
    intros E. injection E as <- <- <-.
    destruct (enc_loop_facts _ _ _ _ _ _ _ Eh) as (_ & I2 & I3 & _). split.
    + intros e num Hin. apply (I3 Hpos Hnd e num Hin).
    + intros v Hv. apply I2, Hv.
Qed.

Theorem det_encoding_nodup vis s cf att p o l st hits o' :
  ginv s -> c_stacked cf = false -> NoDup (map fst l) ->
  det_encoding vis s cf att p o l = AOk (st, hits) o' -> NoDup hits.
Proof.
  intros G Hs Hnd. unfold det_encoding. destruct (forallb _ l).
  - intros E. injection E as <- <- <-. constructor.
  - destruct (scan_all vis s cf att p o (window (c_range cf))) as [sc o1|] eqn:Esc; [|discriminate].
    destruct (enc_loop s cf o1 sc l) as [h o2|] eqn:Eh; [|discriminate].
    intros E. injection E as <- <- <-.
    destruct (scan_all_facts vis s cf att p G _ _ _ _ Esc) as (_ & Hsc & _).
    destruct (enc_loop_facts _ _ _ _ _ _ _ Eh) as (_ & _ & _ & I4 & _).
    apply I4; [exact Hs|apply Hsc, NoDup_window|exact Hnd].
Qed.

Lemma expected_full_encoding vis s cf att l :
  expected_full vis s cf att (AEncoding l) = enc_expected s cf (eligible_all vis s cf att) l.
Proof. reflexivity. Qed.

Theorem det_encoding_full vis s cf att p o l st hits o' :
  ginv s -> att_pos s att = Some p -> c_accuracy cf = HD -> draws_ok o ->
  Forall (fun kv => 0 <= snd kv) l ->
  det_encoding vis s cf att p o l = AOk (st, hits) o' ->
  Z.of_nat (length hits) = expected_full vis s cf att (AEncoding l).
Proof.
  intros G Hp Hacc D Hpos. rewrite expected_full_encoding. unfold det_encoding.
  destruct (forallb (fun kv => snd kv =? 0) l) eqn:Ez.
  - intros E. injection E as <- <- <-. unfold enc_expected. rewrite sumZ_zero; [reflexivity|].
    intros kv Hkv. rewrite forallb_forall in Ez. specialize (Ez kv Hkv). apply Z.eqb_eq in Ez.
    rewrite Ez. apply per_zero. lia.
  - destruct (scan_all vis s cf att p o (window (c_range cf))) as [sc o1|] eqn:Esc; [|discriminate].
    destruct (enc_loop s cf o1 sc l) as [h o2|] eqn:Eh; [|discriminate].
    intros E. injection E as <- <- <-.
    destruct (scan_full_length vis s cf att p o sc o1 G Hp Hacc D Esc) as (Hnd & Hiff & _).
    destruct (enc_loop_facts _ _ _ _ _ _ _ Eh) as (_ & _ & _ & _ & I5). rewrite (I5 Hpos).
    unfold enc_expected. f_equal. apply map_ext. intros kv. f_equal. f_equal.
    apply NoDup_same_length; [apply NoDup_filter, Hnd|apply NoDup_filter, eligible_all_NoDup|].
    intros v. rewrite !filter_In, Hiff, eligible_all_In. reflexivity.
Qed.

(* ---- SelectiveAttackActor --------------------------------------------------------------------------- *)
Definition offb (s : gstate) (att : nat) (d : cell) (v : nat) : bool :=
  match offset_of s att v with Some d' => cell_eqb d d' | None => false end.

Lemma hits_at_offb s att h d : hits_at s att h d = Z.of_nat (length (filter (offb s att d) h)).
Proof. reflexivity. Qed.

Lemma hits_at_app s att h1 h2 d : hits_at s att (h1 ++ h2) d = hits_at s att h1 d + hits_at s att h2 d.
Proof. rewrite !hits_at_offb, filter_app, app_length. lia. Qed.

Lemma hits_at_zero s att h d : (forall v, In v h -> offset_of s att v <> Some d) -> hits_at s att h d = 0.
Proof.
  intros H. rewrite hits_at_offb, filter_none; [reflexivity|]. intros v Hv. unfold offb.
  destruct (offset_of s att v) as [d'|] eqn:E; [|reflexivity]. apply cell_eqb_neq. intros ->.
  apply (H v Hv). exact E.
Qed.

Lemma hits_at_le s att h d : hits_at s att h d <= Z.of_nat (length h).
Proof. rewrite hits_at_offb. pose proof (filter_length_le (offb s att d) h). lia. Qed.

Lemma hits_at_nonneg s att h d : 0 <= hits_at s att h d.
Proof. rewrite hits_at_offb. lia. Qed.

(* the count requested for window cell d by a per-cell action read along the scan order ds *)
Fixpoint req (ds : list cell) (attack : list Z) (d : cell) : Z :=
  match ds, attack with
  | d' :: r, n :: ns => if cell_eqb d d' then n else req r ns d
  | _, _ => 0
  end.

Definition availc vis s cf att p (d : cell) : Z :=
  Z.of_nat (length (filter (critb s cf att) (cands_at vis s cf att p d))).

Definition sel_expected vis s cf att p (ds : list cell) (attack : list Z) : Z :=
  sumZ (map (fun dn => per cf (availc vis s cf att p (fst dn)) (snd dn)) (combine ds attack)).

Lemma sel_expected_cons vis s cf att p d r n ns :
  sel_expected vis s cf att p (d :: r) (n :: ns) =
  per cf (availc vis s cf att p d) n + sel_expected vis s cf att p r ns.
Proof. reflexivity. Qed.

Lemma availc_nonneg vis s cf att p d : 0 <= availc vis s cf att p d.
Proof. unfold availc. lia. Qed.

Lemma sel_loop_facts vis s cf att p : ginv s -> att_pos s att = Some p ->
  forall ds attack o h o',
  (forall d, In d ds -> In d (window (c_range cf))) -> NoDup ds -> Forall (fun n => 0 <= n) attack ->
  sel_loop vis s cf att p o ds attack = AOk h o' ->
  (forall v, In v h -> exists d, In d ds /\ offset_of s att v = Some d) /\
  (forall d, hits_at s att h d <= req ds attack d) /\
  (c_stacked cf = false -> NoDup h) /\
  (draws_ok o -> draws_ok o' /\
     (c_accuracy cf = HD -> Z.of_nat (length h) = sel_expected vis s cf att p ds attack)).
Proof.
  intros G Hp. induction ds as [|d0 r IH]; intros [|n0 ns] o h o' Hw Hnd Hpos H; cbn [sel_loop] in H.
  - injection H as <- <-. split; [intros v []|]. split; [intros d; cbn; lia|].
    split; [constructor|]. intros D. split; [exact D|reflexivity].
  - injection H as <- <-. split; [intros v []|]. split; [intros d; cbn; lia|].
    split; [constructor|]. intros D. split; [exact D|reflexivity].
  - injection H as <- <-. split; [intros v []|]. split; [intros d; cbn; lia|].
    split; [constructor|]. intros D. split; [exact D|reflexivity].
  - inversion Hnd as [|? ? Hd0 Hndr]; subst. inversion Hpos as [|? ? Hn0 Hposr]; subst.
    assert (Hw' : forall d, In d r -> In d (window (c_range cf))) by (intros d Hd; apply Hw; right; exact Hd).
    assert (Hd0w : In d0 (window (c_range cf))) by (apply Hw; left; reflexivity).
    (* the shape of the result when this cell contributes nothing *)
    assert (Skip : forall o1, sel_loop vis s cf att p o1 r ns = AOk h o' ->
              (forall v, In v h -> exists d, In d (d0 :: r) /\ offset_of s att v = Some d) /\
              (forall d, hits_at s att h d <= req (d0 :: r) (n0 :: ns) d) /\
              (c_stacked cf = false -> NoDup h) /\
              (draws_ok o1 -> draws_ok o' /\
                 (c_accuracy cf = HD -> Z.of_nat (length h) = sel_expected vis s cf att p r ns))).
    { intros o1 H1. destruct (IH ns o1 h o' Hw' Hndr Hposr H1) as (I1 & I2 & I3 & I4).
      split; [|split; [|split; [exact I3|exact I4]]].
      - intros v Hv. destruct (I1 v Hv) as (d & Hd & Ho). exists d. split; [right; exact Hd|exact Ho].
      - intros d. cbn [req]. destruct (cell_eqb d d0) eqn:E; [|apply I2].
        apply cell_eqb_eq in E. subst d. rewrite hits_at_zero; [exact Hn0|].
        intros v Hv C. destruct (I1 v Hv) as (d & Hd & Ho). rewrite Ho in C. injection C as ->. contradiction. }
    rewrite sel_expected_cons.
    destruct (n0 =? 0) eqn:En.
    { apply Z.eqb_eq in En. subst n0. destruct (Skip o H) as (A & B & C & D). split; [exact A|].
      split; [exact B|]. split; [exact C|]. intros Dr. destruct (D Dr) as [D1 D2]. split; [exact D1|].
      intros Hacc. rewrite (D2 Hacc), per_zero by apply availc_nonneg. lia. }
    destruct (filter_criteria s cf att o (cands_at vis s cf att p d0)) as [l o1|] eqn:Ef; [|discriminate].
    destruct (filter_criteria_facts _ _ _ _ _ _ _ Ef) as (F1 & F2 & F3 & F4).
    destruct l as [|x l].
    { destruct (Skip o1 H) as (A & B & C & D). split; [exact A|]. split; [exact B|]. split; [exact C|].
      intros Dr. destruct (F4 Dr) as [D1 Hl]. destruct (D D1) as [D2 D3]. split; [exact D2|].
      intros Hacc. unfold availc. rewrite <- (Hl Hacc). cbn [length Z.of_nat].
      rewrite (D3 Hacc), per_empty by exact Hn0. lia. }
    destruct (subset_attackables cf o1 (x :: l) n0) as [h1 o2|] eqn:E1; [|discriminate].
    destruct (sel_loop vis s cf att p o2 r ns) as [h2 o3|] eqn:E2; [|discriminate].
    injection H as <- <-.
    destruct (subset_facts _ _ _ _ _ _ E1) as (S1 & S2 & S3 & S4 & S5).
    destruct (IH ns o2 h2 o3 Hw' Hndr Hposr E2) as (I1 & I2 & I3 & I4).
    assert (Hoff : forall v, In v h1 -> offset_of s att v = Some d0).
    { intros v Hv. apply S1 in Hv. destruct (F1 v Hv) as [Hc Hcr]. apply critb_crit in Hcr.
      apply (eligible_intro vis s cf att p d0 v G Hp Hd0w Hc Hcr). }
    split; [|split; [|split]].
    + intros v Hv. apply in_app_or in Hv as [Hv|Hv].
      * exists d0. split; [left; reflexivity|apply Hoff, Hv].
      * destruct (I1 v Hv) as (d & Hd & Ho). exists d. split; [right; exact Hd|exact Ho].
    + intros d. rewrite hits_at_app. cbn [req]. destruct (cell_eqb d d0) eqn:E.
      * apply cell_eqb_eq in E. subst d. rewrite (hits_at_zero s att h2).
        -- pose proof (hits_at_le s att h1 d0). lia.
        -- intros v Hv C. destruct (I1 v Hv) as (d & Hd & Ho). rewrite Ho in C. injection C as ->. contradiction.
      * apply cell_eqb_neq in E. rewrite (hits_at_zero s att h1).
        -- specialize (I2 d). lia.
        -- intros v Hv C. rewrite (Hoff v Hv) in C. injection C as ->. congruence.
    + intros Hs. apply NoDup_app_intro.
      * apply S5; [exact Hs|]. apply F2, cands_at_NoDup, G.
      * apply I3, Hs.
      * intros v H1 H2. destruct (I1 v H2) as (d & Hd & Ho). rewrite (Hoff v H1) in Ho.
        injection Ho as ->. contradiction.
    + intros Dr. destruct (F4 Dr) as [D1 Hl]. assert (D2 : draws_ok o2) by (unfold draws_ok; rewrite S2; exact D1).
      destruct (I4 D2) as [D3 Hlen]. split; [exact D3|]. intros Hacc.
      rewrite app_length, Nat2Z.inj_add, S3, (Hlen Hacc), per_count by discriminate.
      unfold availc. rewrite <- (Hl Hacc). reflexivity.
Qed.

(* window index: the scan position of offset d is widx d *)
Lemma zrange_from_length n : forall lo, length (zrange_from lo n) = n.
Proof. induction n as [|n IH]; intros lo; cbn [zrange_from length]; [reflexivity|]. rewrite IH. reflexivity. Qed.

Lemma nth_error_zrange_from n : forall lo k, (k < n)%nat ->
  nth_error (zrange_from lo n) k = Some (lo + Z.of_nat k).
Proof.
  induction n as [|n IH]; intros lo k Hk; [lia|]. destruct k as [|k]; cbn [zrange_from nth_error].
  - f_equal. lia.
  - rewrite IH by lia. f_equal. lia.
Qed.

Lemma nth_error_flat_map_uniform {X Y} (f : X -> list Y) w l :
  (forall x, length (f x) = w) -> forall i j x, (j < w)%nat -> nth_error l i = Some x ->
  nth_error (flat_map f l) (i * w + j) = nth_error (f x) j.
Proof.
  intros Hw. induction l as [|y l IH]; intros i j x Hj Hi; [destruct i; discriminate|].
  cbn [flat_map]. destruct i as [|i]; cbn [nth_error] in Hi.
  - injection Hi as ->. cbn [Nat.mul Nat.add]. apply nth_error_app1. rewrite Hw. exact Hj.
  - rewrite nth_error_app2 by (rewrite Hw; lia). rewrite Hw.
    replace (S i * w + j - w)%nat with (i * w + j)%nat by lia. apply IH; assumption.
Qed.

Lemma window_nth cf d : In d (window (c_range cf)) -> nth_error (window (c_range cf)) (widx cf d) = Some d.
Proof.
  intros Hd. apply window_In in Hd. destruct d as [a b]. cbn [fst snd] in Hd.
  unfold widx, R, window, zrange. cbn [fst snd].
  set (Rr := c_range cf) in *. set (w := Z.to_nat (Rr + 1 - - Rr)).
  assert (Ew : Z.of_nat w = 2 * Rr + 1) by (unfold w; lia).
  replace (Z.to_nat ((a + Rr) * (2 * Rr + 1) + (b + Rr)))
    with (Z.to_nat (a + Rr) * w + Z.to_nat (b + Rr))%nat by nia.
  rewrite (nth_error_flat_map_uniform _ w _ (fun x => eq_trans (map_length _ _) (zrange_from_length w (- Rr)))
             (Z.to_nat (a + Rr)) (Z.to_nat (b + Rr)) a); [| lia |].
  - rewrite (map_nth_error _ _ _ (nth_error_zrange_from w (- Rr) (Z.to_nat (b + Rr)) ltac:(lia))).
    f_equal. f_equal. lia.
  - rewrite nth_error_zrange_from by lia. f_equal. lia.
Qed.

Lemma req_nth ds : NoDup ds -> forall attack k d, nth_error ds k = Some d -> req ds attack d = nth k attack 0.
Proof.
  induction ds as [|d0 r IH]; intros Hnd attack k d Hk; [destruct k; discriminate|].
  inversion Hnd as [|? ? Hd0 Hr]; subst. destruct k as [|k]; cbn [nth_error] in Hk.
  - injection Hk as ->. destruct attack as [|n ns]; cbn [req nth]; [reflexivity|].
    rewrite cell_eqb_refl. reflexivity.
  - destruct attack as [|n ns]; cbn [req nth]; [reflexivity|].
    assert (N : d <> d0) by (intros ->; apply Hd0, (nth_error_In _ _ Hk)).
    apply cell_eqb_neq in N. rewrite N. apply IH; assumption.
Qed.

Lemma aimed_at_req cf l d : In d (window (c_range cf)) ->
  aimed_at cf (ASelective l) d = req (window (c_range cf)) l d.
Proof.
  intros Hd. cbn [aimed_at]. symmetry. apply req_nth; [apply NoDup_window|apply window_nth, Hd].
Qed.

Theorem det_selective_limits vis s cf att p o l st hits o' :
  ginv s -> att_pos s att = Some p -> Forall (fun n => 0 <= n) l ->
  det_selective vis s cf att p o l = AOk (st, hits) o' ->
  forall d, In d (window (c_range cf)) -> hits_at s att hits d <= aimed_at cf (ASelective l) d.
Proof.
  intros G Hp Hpos. unfold det_selective. destruct (forallb _ l).
  - intros E. injection E as <- <- <-. intros d Hd. rewrite aimed_at_req by exact Hd.
    assert (Hq : forall ds, 0 <= req ds l d).
    { clear Hd. revert Hpos. generalize l. intros l0 Hpos ds. revert l0 Hpos.
      induction ds as [|d' r IH]; intros [|n ns] Hpos; cbn [req]; try lia.
      inversion Hpos; subst. destruct (cell_eqb d d'); [assumption|apply IH; assumption]. }
    specialize (Hq (window (c_range cf))). cbn. exact Hq.
  - destruct (sel_loop vis s cf att p o (window (c_range cf)) l) as [h o1|] eqn:Eh; [|discriminate].
    intros E. injection E as <- <- <-. intros d Hd. rewrite aimed_at_req by exact Hd.
    destruct (sel_loop_facts vis s cf att p G Hp _ _ _ _ _ (fun d H => H) (NoDup_window _) Hpos Eh) as (_ & I2 & _).
    apply I2.
Qed.

Theorem det_selective_nodup vis s cf att p o l st hits o' :
  ginv s -> att_pos s att = Some p -> Forall (fun n => 0 <= n) l -> c_stacked cf = false ->
  det_selective vis s cf att p o l = AOk (st, hits) o' -> NoDup hits.
Proof.
  intros G Hp Hpos Hs. unfold det_selective. destruct (forallb _ l).
  - intros E. injection E as <- <- <-. constructor.
  - destruct (sel_loop vis s cf att p o (window (c_range cf)) l) as [h o1|] eqn:Eh; [|discriminate].
    intros E. injection E as <- <- <-.
    destruct (sel_loop_facts vis s cf att p G Hp _ _ _ _ _ (fun d H => H) (NoDup_window _) Hpos Eh) as (_ & _ & I3 & _).
    apply I3, Hs.
Qed.

Lemma sum_combine_req (F : cell -> Z -> Z) ds : NoDup ds -> (forall d, In d ds -> F d 0 = 0) ->
  forall attack,
  sumZ (map (fun dn => F (fst dn) (snd dn)) (combine ds attack)) =
  sumZ (map (fun d => F d (req ds attack d)) ds).
Proof.
  induction ds as [|d0 r IH]; intros Hnd H0 attack; [reflexivity|].
  inversion Hnd as [|? ? Hd0 Hr]; subst. destruct attack as [|n ns].
  - change (0 = sumZ (map (fun d => F d (req (d0 :: r) [] d)) (d0 :: r))).
    symmetry. apply sumZ_zero. intros d Hd. cbn [req]. apply H0, Hd.
  - cbn [combine map sumZ fold_right fst snd]. cbn [req]. rewrite cell_eqb_refl. f_equal.
    fold (sumZ (map (fun dn => F (fst dn) (snd dn)) (combine r ns))).
    rewrite IH; [|exact Hr|intros d Hd; apply H0; right; exact Hd].
    unfold sumZ. f_equal. apply map_ext_in. intros d Hd.
    assert (N : d <> d0) by (intros ->; contradiction). apply cell_eqb_neq in N. rewrite N. reflexivity.
Qed.

Lemma eligible_at_In vis s cf att d v :
  In v (eligible_at vis s cf att d) <-> eligible vis s cf att v = true /\ offset_of s att v = Some d.
Proof.
  unfold eligible_at, agent_ids. rewrite filter_In, in_seq, andb_true_iff. split.
  - intros (_ & He & Ho). split; [exact He|]. destruct (offset_of s att v) as [d'|]; [|discriminate].
    apply cell_eqb_eq in Ho. congruence.
  - intros (He & Ho). split; [pose proof (eligible_lt _ _ _ _ _ He); lia|]. split; [exact He|].
    rewrite Ho. apply cell_eqb_refl.
Qed.

Lemma availc_eligible_at vis s cf att p d : ginv s -> att_pos s att = Some p ->
  In d (window (c_range cf)) ->
  availc vis s cf att p d = Z.of_nat (length (eligible_at vis s cf att d)).
Proof.
  intros G Hp Hd. unfold availc. f_equal. apply NoDup_same_length.
  - apply NoDup_filter, cands_at_NoDup, G.
  - unfold eligible_at, agent_ids. apply NoDup_filter, seq_NoDup.
  - intros v. rewrite eligible_at_In, filter_In. split.
    + intros [Hc Hcr]. apply critb_crit in Hcr. apply (eligible_intro vis s cf att p d v G Hp Hd Hc Hcr).
    + intros [He Ho]. destruct (eligible_offset_cands vis s cf att p d v G Hp He Ho) as (_ & A & B). auto.
Qed.

Lemma expected_full_selective vis s cf att l :
  expected_full vis s cf att (ASelective l) =
  sumZ (map (fun d => per cf (Z.of_nat (length (eligible_at vis s cf att d))) (aimed_at cf (ASelective l) d))
            (window (c_range cf))).
Proof. reflexivity. Qed.

Lemma nth_all_zero l : forallb (fun n => n =? 0) l = true -> forall k, nth k l 0 = 0.
Proof.
  induction l as [|n l IH]; intros H k; [destruct k; reflexivity|].
  cbn [forallb] in H. apply andb_true_iff in H as [A B]. apply Z.eqb_eq in A.
  destruct k; cbn [nth]; [exact A|apply IH, B].
Qed.

Theorem det_selective_full vis s cf att p o l st hits o' :
  ginv s -> att_pos s att = Some p -> c_accuracy cf = HD -> draws_ok o -> Forall (fun n => 0 <= n) l ->
  det_selective vis s cf att p o l = AOk (st, hits) o' ->
  Z.of_nat (length hits) = expected_full vis s cf att (ASelective l).
Proof.
  intros G Hp Hacc D Hpos. rewrite expected_full_selective. unfold det_selective.
  destruct (forallb (fun n => n =? 0) l) eqn:Ez.
  - intros E. injection E as <- <- <-. rewrite sumZ_zero; [reflexivity|]. intros d _.
    cbn [aimed_at]. rewrite (nth_all_zero l Ez). apply per_zero. lia.
  - destruct (sel_loop vis s cf att p o (window (c_range cf)) l) as [h o1|] eqn:Eh; [|discriminate].
    intros E. injection E as <- <- <-.
    destruct (sel_loop_facts vis s cf att p G Hp _ _ _ _ _ (fun d H => H) (NoDup_window _) Hpos Eh) as (_ & _ & _ & I4).
    destruct (I4 D) as [_ Hlen]. rewrite (Hlen Hacc). unfold sel_expected.
    rewrite (sum_combine_req (fun d n => per cf (availc vis s cf att p d) n) _ (NoDup_window _)).
    + unfold sumZ. f_equal. apply map_ext_in. intros d Hd.
      rewrite (availc_eligible_at vis s cf att p d G Hp Hd), <- (aimed_at_req cf l d Hd). reflexivity.
    + intros d _. apply per_zero, availc_nonneg.
Qed.

(* ---- ammunition ---------------------------------------------------------------------------------------- *)
Lemma hit_agent s st v j b : agent s j = Some b ->
  exists b', agent (hit s st v) j = Some b' /\ a_ammo b' = a_ammo b.
Proof.
  intros Hb. unfold agent at 1. rewrite hit_agents. destruct (agent s v) as [c|] eqn:Hc; [|exists b; auto].
  destruct (a_active c); [|exists b; auto]. destruct (Nat.eq_dec j v) as [->|N].
  - rewrite (nth_error_upd_same _ _ _ _ Hb). eexists. split; [reflexivity|].
    assert (c = b) by congruence. subst c. reflexivity.
  - rewrite nth_error_upd_other by exact N. exists b. auto.
Qed.

Lemma apply_hits_ammo hits : forall s st j b, agent s j = Some b ->
  exists b', agent (apply_hits s st hits) j = Some b' /\ a_ammo b' = a_ammo b.
Proof.
  unfold apply_hits. induction hits as [|v r IH]; intros s st j b Hb; cbn [fold_left]; [exists b; auto|].
  destruct (hit_agent s st v j b Hb) as (b1 & Hb1 & E1).
  destruct (IH (hit s st v) st j b1 Hb1) as (b' & Hb' & E'). exists b'. split; [exact Hb'|congruence].
Qed.

(* process_attack, taken apart: what was determined, what the ammunition filter kept, and the state *)
Lemma process_attack_spec vis s cf att o act st hits' s' o' a p :
  agent s att = Some a -> a_pos a = Some p ->
  process_attack vis s cf att o act = POk st hits' s' o' ->
  exists hits o1, determine vis s cf att p o act = AOk (st, hits) o1 /\
    match a_ammo a with
    | None => hits' = hits /\ s' = apply_hits s (c_strength cf) hits'
    | Some am =>
        0 <= am /\ Z.of_nat (length hits') = Z.min (Z.of_nat (length hits)) am /\
        (hits' = hits \/ submultiset hits' hits = true) /\
        s' = apply_hits (set_agent s att (with_ammo a (Some (am - Z.of_nat (length hits')))))
                        (c_strength cf) hits'
    end.
Proof.
  intros Ha Hp. unfold process_attack. rewrite Ha, Hp.
  destruct (determine vis s cf att p o act) as [[st0 hits] o1|]; [|discriminate].
  destruct (a_ammo a) as [am|].
  - destruct (am <? Z.of_nat (length hits)) eqn:El.
    + destruct (o_choice o1) as [|ch cs]; [discriminate|].
      destruct ((Z.of_nat (length ch) =? am) && submultiset ch hits) eqn:Ec; [|discriminate].
      intros E. injection E as <- <- <- <-. apply andb_true_iff in Ec as [Ec Es]. apply Z.eqb_eq in Ec.
      apply Z.ltb_lt in El. exists hits, o1. split; [reflexivity|]. split; [lia|]. split; [lia|].
      split; [right; exact Es|]. rewrite Ec. replace (Z.max 0 (am - am)) with (am - am) by lia. reflexivity.
    + intros E. injection E as <- <- <- <-. apply Z.ltb_ge in El. exists hits, o1.
      split; [reflexivity|]. split; [lia|]. split; [lia|]. split; [left; reflexivity|].
      replace (Z.max 0 (am - Z.of_nat (length hits))) with (am - Z.of_nat (length hits)) by lia. reflexivity.
  - intros E. injection E as <- <- <- <-. exists hits, o1. auto.
Qed.

Theorem process_attack_ammo vis s cf att o act st hits s' o' a :
  agent s att = Some a ->
  process_attack vis s cf att o act = POk st hits s' o' ->
  (forall am, a_ammo a = Some am -> Z.of_nat (length hits) <= am) /\
  (forall j b, agent s j = Some b ->
     exists b', agent s' j = Some b' /\
       a_ammo b' = if Nat.eqb j att
                   then option_map (fun am => am - Z.of_nat (length hits)) (a_ammo b)
                   else a_ammo b).
Proof.
  intros Ha H. destruct (a_pos a) as [p|] eqn:Hp.
  2:{ unfold process_attack in H. rewrite Ha, Hp in H. discriminate. }
  destruct (process_attack_spec vis s cf att o act st hits s' o' a p Ha Hp H) as (hits0 & o1 & _ & Sp).
  destruct (a_ammo a) as [am|] eqn:Ham.
  - destruct Sp as (Ham0 & Hlen & _ & ->). split; [intros am' E; injection E as <-; lia|].
    intros j b Hb. destruct (Nat.eqb j att) eqn:Ej.
    + apply Nat.eqb_eq in Ej. subst j. assert (b = a) by congruence. subst b.
      destruct (apply_hits_ammo hits _ (c_strength cf) att _
                  (agent_set_agent_same s att (with_ammo a (Some (am - Z.of_nat (length hits)))) a Ha))
        as (b' & Hb' & E).
      exists b'. split; [exact Hb'|]. rewrite E, Ham. reflexivity.
    + apply Nat.eqb_neq in Ej.
      assert (Hb1 : agent (set_agent s att (with_ammo a (Some (am - Z.of_nat (length hits))))) j = Some b)
        by (rewrite agent_set_agent_other by exact Ej; exact Hb).
      apply (apply_hits_ammo hits _ (c_strength cf) j b Hb1).
  - destruct Sp as (_ & ->). split; [discriminate|]. intros j b Hb.
    destruct (apply_hits_ammo hits s (c_strength cf) j b Hb) as (b' & Hb' & E). exists b'.
    split; [exact Hb'|]. destruct (Nat.eqb j att) eqn:Ej; [|exact E].
    apply Nat.eqb_eq in Ej. subst j. assert (b = a) by congruence. subst b. rewrite E, Ham. reflexivity.
Qed.

(* with full accuracy the random criterion never rejects: exactly the candidates that satisfy the
   three deterministic criteria pass *)
Theorem filter_criteria_full s cf att o cands l o' :
  c_accuracy cf = HD -> Forall (fun u => u <= HD) (o_unif o) ->
  filter_criteria s cf att o cands = AOk l o' ->
  l = filter (critb s cf att) cands.
Proof.
  intros Hacc D H. destruct (filter_criteria_facts _ _ _ _ _ _ _ H) as (_ & _ & _ & F4).
  destruct (F4 D) as [_ Hl]. apply Hl, Hacc.
Qed.
