(* Proofs about Grid/Done.v: every done component agrees with its documented condition stated
   over the population as a whole, and with the boolean specification used by chk_C17_done. *)
From Coq Require Import ZArith List Bool Lia Arith.
From Abm Require Import Base.Sx Grid.Overlap Grid.Amap Grid.Done Proofs.Amap_proofs.
Import ListNotations.
Open Scope Z_scope.

(* ---- small facts -------------------------------------------------------------------- *)
Lemma memZ_In : forall x l, memZ x l = true <-> In x l.
Proof.
  intros x l. unfold memZ. rewrite existsb_exists. split.
  - intros [y [Hy E]]. apply Z.eqb_eq in E. subst. exact Hy.
  - intros H. exists x. split; [exact H|apply Z.eqb_refl].
Qed.

Lemma memZ_false : forall x l, memZ x l = false <-> ~ In x l.
Proof.
  intros x l. rewrite <- memZ_In. destruct (memZ x l); split; intros H; try reflexivity;
    try discriminate; try (intros H'; discriminate). exfalso. apply H. reflexivity.
Qed.

Lemma set_add_In : forall x s y, In y (set_add x s) <-> y = x \/ In y s.
Proof.
  intros x s y. unfold set_add. destruct (memZ x s) eqn:E.
  - apply memZ_In in E. split; [intros H; right; exact H|intros [H|H]; [subst; exact E|exact H]].
  - rewrite in_app_iff. cbn. split.
    + intros [H|[H|[]]]; [right; exact H|left; symmetry; exact H].
    + intros [H|H]; [right; left; symmetry; exact H|left; exact H].
Qed.

Lemma set_add_NoDup : forall x s, NoDup s -> NoDup (set_add x s).
Proof.
  intros x s H. unfold set_add. destruct (memZ x s) eqn:E; [exact H|].
  apply memZ_false in E. apply NoDup_snoc; assumption.
Qed.

Lemma pos_eqb_eq : forall p q, pos_eqb p q = true <-> p = q.
Proof.
  intros [[r c]|] [[r' c']|]; cbn; split; intros H; try discriminate; try reflexivity.
  - apply andb_true_iff in H. destruct H as [H1 H2].
    apply Z.eqb_eq in H1. apply Z.eqb_eq in H2. subst. reflexivity.
  - inversion H. subst. rewrite !Z.eqb_refl. reflexivity.
Qed.

Lemma filter_nil {T} : forall (f : T -> bool) l,
    filter f l = [] <-> forall x, In x l -> f x = false.
Proof.
  intros f l. induction l as [|a r IH]; cbn.
  - split; [intros _ x []|reflexivity].
  - destruct (f a) eqn:E.
    + split; [discriminate|]. intros H. rewrite (H a (or_introl eq_refl)) in E. discriminate.
    + rewrite IH. split.
      * intros H x [Hx|Hx]; [subst; exact E|apply H; exact Hx].
      * intros H x Hx. apply H. right. exact Hx.
Qed.

(* ---- ActiveDone ---------------------------------------------------------------------- *)
Lemma active_all_done_spec : forall p,
    active_all_done p = true <-> forall a, In a p -> a_active a = false.
Proof.
  induction p as [|a r IH]; cbn.
  - split; [intros _ a []|reflexivity].
  - destruct (a_active a) eqn:E.
    + split; [discriminate|]. intros H. rewrite (H a (or_introl eq_refl)) in E. discriminate.
    + rewrite IH. split.
      * intros H x [Hx|Hx]; [subst; exact E|apply H; exact Hx].
      * intros H x Hx. apply H. right. exact Hx.
Qed.

Lemma active_all_done_forallb : forall p,
    active_all_done p = forallb (fun a => negb (a_active a)) p.
Proof.
  induction p as [|a r IH]; cbn; [reflexivity|]. destruct (a_active a); cbn; [reflexivity|exact IH].
Qed.

Lemma C17_active_spec_lemma : forall p,
    (forall i a, nth_error p i = Some a ->
        get_done p DActive i = Some (negb (a_active a))) /\
    (get_all_done p DActive = Some true <-> forall a, In a p -> a_active a = false).
Proof.
  intros p. split.
  - intros i a H. cbn. unfold active_done. rewrite H. reflexivity.
  - cbn. rewrite <- active_all_done_spec. split; [intros H; inversion H; reflexivity|intros H; rewrite H; reflexivity].
Qed.

(* ---- all_list ------------------------------------------------------------------------ *)
Lemma all_list_Some_true : forall l,
    all_list l = Some true <-> forall o, In o l -> o = Some true.
Proof.
  induction l as [|o r IH]; cbn.
  - split; [intros _ o []|reflexivity].
  - destruct o as [b|].
    + destruct (all_list r) as [b'|] eqn:E.
      * split.
        -- intros H. inversion H as [H1]. apply andb_true_iff in H1. destruct H1 as [Hb Hb']. subst.
           intros o [Ho|Ho]; [subst; reflexivity|]. apply (proj1 IH eq_refl). exact Ho.
        -- intros H. assert (Hb : Some b = Some true) by (apply H; left; reflexivity).
           inversion Hb. subst. cbn.
           assert (Hr : Some b' = Some true) by (apply IH; intros o Ho; apply H; right; exact Ho).
           exact Hr.
      * split; [discriminate|]. intros H.
        assert (Hr : None = Some true) by (apply IH; intros o Ho; apply H; right; exact Ho).
        discriminate.
    + split; [discriminate|]. intros H. specialize (H None (or_introl eq_refl)). discriminate.
Qed.

Lemma all_list_forallb : forall l,
    all_list l =
    if forallb (fun o => match o with Some _ => true | None => false end) l
    then Some (forallb (fun o => match o with Some b => b | None => false end) l)
    else None.
Proof.
  induction l as [|o r IH]; cbn; [reflexivity|].
  destruct o as [b|]; cbn; [|reflexivity].
  rewrite IH. destruct (forallb _ r); reflexivity.
Qed.

(* ---- target-agent components --------------------------------------------------------- *)
Definition atm_wf (p : pop) (tm : atmap) : Prop :=
  NoDup (map fst tm) /\
  forall i t, In (i, t) tm -> (i < length p)%nat /\ (t < length p)%nat.

Lemma nat_eqb_ok : forall a b, Nat.eqb a b = true <-> a = b.
Proof. intros. apply Nat.eqb_eq. Qed.

Lemma overlap_done_true : forall p tm i t a b,
    am_get Nat.eqb tm i = Some t -> nth_error p i = Some a -> nth_error p t = Some b ->
    (get_done p (DOverlap tm) i = Some true <-> a_pos a = a_pos b) /\
    (get_done p (DOverlap tm) i = Some false <-> a_pos a <> a_pos b).
Proof.
  intros p tm i t a b Hg Ha Hb. cbn. unfold overlap_done, target_of. rewrite Ha, Hg, Hb.
  destruct (pos_eqb (a_pos a) (a_pos b)) eqn:E.
  - apply pos_eqb_eq in E. split; split; intros H; try reflexivity; try exact E; try discriminate.
    contradiction.
  - split; split; intros H; try discriminate; try reflexivity.
    + apply pos_eqb_eq in H. rewrite H in E. discriminate.
    + intros H'. apply pos_eqb_eq in H'. rewrite H' in E. discriminate.
Qed.

Lemma tgtinactive_done_true : forall p tm i t a b,
    am_get Nat.eqb tm i = Some t -> nth_error p i = Some a -> nth_error p t = Some b ->
    get_done p (DTgtInactive tm) i = Some (negb (a_active b)).
Proof.
  intros p tm i t a b Hg Ha Hb. cbn. unfold tgtinactive_done, target_of. rewrite Ha, Hg, Hb.
  reflexivity.
Qed.

Lemma nth_error_lt {T} : forall (l : list T) i, (i < length l)%nat -> exists x, nth_error l i = Some x.
Proof.
  intros l i H. destruct (nth_error l i) eqn:E; [eauto|].
  apply nth_error_None in E. lia.
Qed.

Lemma C17_overlap_spec_lemma : forall p tm, atm_wf p tm ->
    (forall i t a b, In (i, t) tm -> nth_error p i = Some a -> nth_error p t = Some b ->
        (get_done p (DOverlap tm) i = Some true <-> a_pos a = a_pos b) /\
        (get_done p (DOverlap tm) i = Some false <-> a_pos a <> a_pos b)) /\
    (forall i, ~ In i (map fst tm) -> get_done p (DOverlap tm) i = None) /\
    (get_all_done p (DOverlap tm) = Some true <->
       forall i t a b, In (i, t) tm -> nth_error p i = Some a -> nth_error p t = Some b ->
                       a_pos a = a_pos b) /\
    get_all_done p (DOverlap tm) <> None.
Proof.
  intros p tm [Hnd Hr]. split; [|split; [|split]].
  - intros i t a b Hin Ha Hb. apply (overlap_done_true p tm i t a b); try assumption.
    apply (In_am_get Nat.eqb nat_eqb_ok); assumption.
  - intros i Hni. cbn. unfold overlap_done, target_of.
    apply (am_get_None Nat.eqb nat_eqb_ok) in Hni. rewrite Hni.
    destruct (nth_error p i); reflexivity.
  - cbn. unfold overlap_all_done. rewrite all_list_Some_true. split.
    + intros H i t a b Hin Ha Hb.
      apply (overlap_done_true p tm i t a b (In_am_get Nat.eqb nat_eqb_ok tm i t Hnd Hin) Ha Hb).
      apply H. apply in_map_iff. exists (i, t). split; [reflexivity|exact Hin].
    + intros H o Ho. apply in_map_iff in Ho. destruct Ho as [[i t] [Ho Hin]]. subst o. cbn.
      destruct (Hr i t Hin) as [Hi Ht].
      destruct (nth_error_lt p i Hi) as [a Ha]. destruct (nth_error_lt p t Ht) as [b Hb].
      apply (overlap_done_true p tm i t a b (In_am_get Nat.eqb nat_eqb_ok tm i t Hnd Hin) Ha Hb).
      apply (H i t a b); assumption.
  - cbn. unfold overlap_all_done. rewrite all_list_forallb.
    replace (forallb _ _) with true; [discriminate|]. symmetry. apply forallb_forall.
    intros o Ho. apply in_map_iff in Ho. destruct Ho as [[i t] [Ho Hin]]. subst o. cbn.
    destruct (Hr i t Hin) as [Hi Ht].
    destruct (nth_error_lt p i Hi) as [a Ha]. destruct (nth_error_lt p t Ht) as [b Hb].
    unfold overlap_done, target_of.
    rewrite Ha, (In_am_get Nat.eqb nat_eqb_ok tm i t Hnd Hin), Hb. reflexivity.
Qed.

Lemma C17_tgtinactive_spec_lemma : forall p tm, atm_wf p tm ->
    (forall i t a b, In (i, t) tm -> nth_error p i = Some a -> nth_error p t = Some b ->
        get_done p (DTgtInactive tm) i = Some (negb (a_active b))) /\
    (forall i, ~ In i (map fst tm) -> get_done p (DTgtInactive tm) i = None) /\
    (get_all_done p (DTgtInactive tm) = Some true <->
       forall i t b, In (i, t) tm -> nth_error p t = Some b -> a_active b = false) /\
    get_all_done p (DTgtInactive tm) <> None.
Proof.
  intros p tm [Hnd Hr]. split; [|split; [|split]].
  - intros i t a b Hin Ha Hb. apply (tgtinactive_done_true p tm i t a b); try assumption.
    apply (In_am_get Nat.eqb nat_eqb_ok); assumption.
  - intros i Hni. cbn. unfold tgtinactive_done, target_of.
    apply (am_get_None Nat.eqb nat_eqb_ok) in Hni. rewrite Hni.
    destruct (nth_error p i); reflexivity.
  - cbn. unfold tgtinactive_all_done. rewrite all_list_Some_true. split.
    + intros H i t b Hin Hb. destruct (Hr i t Hin) as [Hi Ht].
      destruct (nth_error_lt p i Hi) as [a Ha].
      assert (E : get_done p (DTgtInactive tm) i = Some true).
      { apply H. apply in_map_iff. exists (i, t). split; [reflexivity|exact Hin]. }
      rewrite (tgtinactive_done_true p tm i t a b
                 (In_am_get Nat.eqb nat_eqb_ok tm i t Hnd Hin) Ha Hb) in E.
      inversion E as [E1]. destruct (a_active b); [discriminate|reflexivity].
    + intros H o Ho. apply in_map_iff in Ho. destruct Ho as [[i t] [Ho Hin]]. subst o. cbn.
      destruct (Hr i t Hin) as [Hi Ht].
      destruct (nth_error_lt p i Hi) as [a Ha]. destruct (nth_error_lt p t Ht) as [b Hb].
      change (get_done p (DTgtInactive tm) i = Some true).
      rewrite (tgtinactive_done_true p tm i t a b
                 (In_am_get Nat.eqb nat_eqb_ok tm i t Hnd Hin) Ha Hb).
      rewrite (H i t b Hin Hb). reflexivity.
  - cbn. unfold tgtinactive_all_done. rewrite all_list_forallb.
    replace (forallb _ _) with true; [discriminate|]. symmetry. apply forallb_forall.
    intros o Ho. apply in_map_iff in Ho. destruct Ho as [[i t] [Ho Hin]]. subst o. cbn.
    destruct (Hr i t Hin) as [Hi Ht].
    destruct (nth_error_lt p i Hi) as [a Ha]. destruct (nth_error_lt p t Ht) as [b Hb].
    unfold tgtinactive_done, target_of.
    rewrite Ha, (In_am_get Nat.eqb nat_eqb_ok tm i t Hnd Hin), Hb. reflexivity.
Qed.

(* ---- encodings of the active agents ---------------------------------------------------- *)
Definition ae_step (s : list Z) (a : agent) : list Z :=
  if a_active a then set_add (a_enc a) s else s.

Lemma ae_fold_In : forall p s x,
    In x (fold_left ae_step p s) <->
    In x s \/ exists a, In a p /\ a_active a = true /\ a_enc a = x.
Proof.
  induction p as [|a r IH]; intros s x; cbn.
  - split; [intros H; left; exact H|intros [H|[a [[] _]]]; exact H].
  - rewrite IH. unfold ae_step at 1. destruct (a_active a) eqn:E.
    + rewrite set_add_In. split.
      * intros [[H|H]|[b [Hb H]]].
        -- right. exists a. split; [left; reflexivity|]. split; [exact E|symmetry; exact H].
        -- left. exact H.
        -- right. exists b. split; [right; exact Hb|exact H].
      * intros [H|[b [[Hb|Hb] [H1 H2]]]].
        -- left. right. exact H.
        -- subst b. left. left. symmetry. exact H2.
        -- right. exists b. split; [exact Hb|]. split; assumption.
    + split.
      * intros [H|[b [Hb H]]]; [left; exact H|]. right. exists b. split; [right; exact Hb|exact H].
      * intros [H|[b [[Hb|Hb] [H1 H2]]]]; [left; exact H| |].
        -- subst b. rewrite E in H1. discriminate.
        -- right. exists b. split; [exact Hb|]. split; assumption.
Qed.

Lemma ae_fold_NoDup : forall p s, NoDup s -> NoDup (fold_left ae_step p s).
Proof.
  induction p as [|a r IH]; intros s H; cbn; [exact H|].
  apply IH. unfold ae_step. destruct (a_active a); [apply set_add_NoDup; exact H|exact H].
Qed.

Lemma active_encodings_In : forall p x,
    In x (active_encodings p) <-> exists a, In a p /\ a_active a = true /\ a_enc a = x.
Proof.
  intros p x. unfold active_encodings. change (fun s a => if a_active a then set_add (a_enc a) s else s)
    with ae_step. rewrite ae_fold_In. split; [intros [[]|H]; exact H|intros H; right; exact H].
Qed.

Lemma active_encodings_NoDup : forall p, NoDup (active_encodings p).
Proof. intros p. apply (ae_fold_NoDup p []). constructor. Qed.

(* the readable condition: no active agent carries one of the encodings t *)
Definition all_inactive (p : pop) (t : list Z) : Prop :=
  forall b, In b p -> a_active b = true -> ~ In (a_enc b) t.

Lemma team_done_spec : forall p t, team_done p t = true <-> all_inactive p t.
Proof.
  intros p t. unfold team_done, all_inactive.
  destruct (intersection (active_encodings p) t) eqn:E.
  - split; [|reflexivity]. intros _ b Hb Hact Hin.
    unfold intersection in E. rewrite filter_nil in E.
    assert (Hx : In (a_enc b) (active_encodings p)).
    { apply active_encodings_In. exists b. repeat split; assumption. }
    apply E in Hx. apply memZ_false in Hx. contradiction.
  - split; [discriminate|]. intros H. exfalso.
    assert (Hz : In z (intersection (active_encodings p) t)) by (rewrite E; left; reflexivity).
    unfold intersection in Hz. apply filter_In in Hz. destruct Hz as [Hz1 Hz2].
    apply active_encodings_In in Hz1. destruct Hz1 as [a [Ha [Hact He]]]. subst z.
    apply memZ_In in Hz2. exact (H a Ha Hact Hz2).
Qed.

Lemma sp_all_inactive_spec : forall p t, sp_all_inactive p t = true <-> all_inactive p t.
Proof.
  intros p t. unfold sp_all_inactive, all_inactive. rewrite forallb_forall. split.
  - intros H b Hb Hact Hin. specialize (H b Hb). rewrite Hact in H. cbn in H.
    apply memZ_In in Hin. rewrite Hin in H. discriminate.
  - intros H b Hb. destruct (a_active b) eqn:E; [|reflexivity]. cbn.
    destruct (memZ (a_enc b) t) eqn:M; [|reflexivity].
    apply memZ_In in M. exfalso. exact (H b Hb E M).
Qed.

Lemma team_done_sp : forall p t, team_done p t = sp_all_inactive p t.
Proof.
  intros p t. apply eq_true_iff_eq. rewrite team_done_spec, sp_all_inactive_spec. reflexivity.
Qed.

Lemma z_eqb_ok : forall a b : Z, (a =? b) = true <-> a = b.
Proof. intros. apply Z.eqb_eq. Qed.

Lemma C17_encoding_spec_lemma : forall p tm one, NoDup (map fst tm) ->
    (forall i a, nth_error p i = Some a ->
       (get_done p (DEncInactive tm one) i = Some true <->
        exists t, In (a_enc a, t) tm /\ all_inactive p (tgt_set t)) /\
       get_done p (DEncInactive tm one) i <> None) /\
    (forall i a, nth_error p i = Some a -> ~ In (a_enc a) (map fst tm) ->
       get_done p (DEncInactive tm one) i = Some false) /\
    (get_all_done p (DEncInactive tm one) = Some true <->
       if one then exists e t, In (e, t) tm /\ all_inactive p (tgt_set t)
       else forall e t, In (e, t) tm -> all_inactive p (tgt_set t)).
Proof.
  intros p tm one Hnd. split; [|split].
  - intros i a Ha. cbn. unfold enc_done. rewrite Ha. split.
    + destruct (am_get Z.eqb tm (a_enc a)) as [t|] eqn:E.
      * split.
        -- intros H. inversion H as [H1]. exists t. split.
           ++ apply (am_get_In Z.eqb z_eqb_ok). exact E.
           ++ apply team_done_spec. exact H1.
        -- intros [t' [Hin Hall]].
           rewrite (In_am_get Z.eqb z_eqb_ok tm _ _ Hnd Hin) in E. inversion E. subst t'.
           apply team_done_spec in Hall. rewrite Hall. reflexivity.
      * split; [discriminate|]. intros [t' [Hin _]].
        rewrite (In_am_get Z.eqb z_eqb_ok tm _ _ Hnd Hin) in E. discriminate.
    + destruct (am_get Z.eqb tm (a_enc a)); discriminate.
  - intros i a Ha Hni. cbn. unfold enc_done. rewrite Ha.
    apply (am_get_None Z.eqb z_eqb_ok) in Hni. rewrite Hni. reflexivity.
  - cbn. unfold enc_all_done. destruct one.
    + split.
      * intros H. inversion H as [H1]. apply existsb_exists in H1. destruct H1 as [b [Hb Hbt]].
        subst b. apply in_map_iff in Hb. destruct Hb as [[e t] [Hb Hin]]. cbn in Hb.
        exists e, t. split; [exact Hin|]. apply team_done_spec. exact Hb.
      * intros [e [t [Hin Hall]]]. f_equal. apply existsb_exists. exists true. split; [|reflexivity].
        apply in_map_iff. exists (e, t). split; [|exact Hin]. cbn. apply team_done_spec. exact Hall.
    + split.
      * intros H e t Hin. inversion H as [H1]. rewrite forallb_forall in H1.
        apply team_done_spec. apply (H1 (team_done p (tgt_set t))).
        apply in_map_iff. exists (e, t). split; [reflexivity|exact Hin].
      * intros H. f_equal. apply forallb_forall. intros b Hb.
        apply in_map_iff in Hb. destruct Hb as [[e t] [Hb Hin]]. cbn in Hb. subst b.
        apply team_done_spec. exact (H e t Hin).
Qed.

(* ---- OneTeamRemainingDone --------------------------------------------------------------- *)
Lemma NoDup_le1 {T} : forall l : list T, NoDup l ->
    ((length l <= 1)%nat <-> forall x y, In x l -> In y l -> x = y).
Proof.
  intros l Hnd. destruct l as [|a [|b r]]; cbn.
  - split; [intros _ x y []|lia].
  - split; [|lia]. intros _ x y [Hx|[]] [Hy|[]]. subst. reflexivity.
  - split; [lia|]. intros H. exfalso.
    assert (E : a = b) by (apply H; [left; reflexivity|right; left; reflexivity]).
    subst. inversion Hnd as [|x l Hni _]. apply Hni. left. reflexivity.
Qed.

Definition one_team (p : pop) : Prop :=
  forall a b, In a p -> In b p -> a_active a = true -> a_active b = true -> a_enc a = a_enc b.

Lemma oneteam_spec : forall p, oneteam_all_done p = true <-> one_team p.
Proof.
  intros p. unfold oneteam_all_done, one_team. rewrite Nat.leb_le.
  rewrite (NoDup_le1 _ (active_encodings_NoDup p)). split.
  - intros H a b Ha Hb Aa Ab. apply H; apply active_encodings_In.
    + exists a. repeat split; assumption.
    + exists b. repeat split; assumption.
  - intros H x y Hx Hy. apply active_encodings_In in Hx, Hy.
    destruct Hx as [a [Ha [Aa Ea]]]. destruct Hy as [b [Hb [Ab Eb]]]. subst.
    apply H; assumption.
Qed.

Lemma C17_oneteam_spec_lemma : forall p,
    (forall i a, nth_error p i = Some a ->
        get_done p DOneTeam i = Some (negb (a_active a))) /\
    (get_all_done p DOneTeam = Some true <-> one_team p).
Proof.
  intros p. split.
  - intros i a H. cbn. unfold active_done. rewrite H. reflexivity.
  - cbn. rewrite <- oneteam_spec. split; [intros H; inversion H; reflexivity|intros H; rewrite H; reflexivity].
Qed.

Lemma sp_oneteam_spec : forall p,
    forallb (fun a => forallb (fun b =>
       negb (a_active a) || negb (a_active b) || (a_enc a =? a_enc b)) p) p = true <-> one_team p.
Proof.
  intros p. unfold one_team. rewrite forallb_forall. split.
  - intros H a b Ha Hb Aa Ab. specialize (H a Ha). rewrite forallb_forall in H.
    specialize (H b Hb). rewrite Aa, Ab in H. cbn in H. apply Z.eqb_eq. exact H.
  - intros H a Ha. apply forallb_forall. intros b Hb.
    destruct (a_active a) eqn:Aa; [|reflexivity]. destruct (a_active b) eqn:Ab; [|reflexivity].
    cbn. apply Z.eqb_eq. apply H; assumption.
Qed.

(* ---- model = boolean specification (for the checker) ------------------------------------ *)
Lemma am_get_find_nat : forall (tm : atmap) i,
    am_get Nat.eqb tm i = option_map snd (find (fun kv => Nat.eqb (fst kv) i) tm).
Proof.
  induction tm as [|[k t] r IH]; intros i; cbn; [reflexivity|].
  rewrite (Nat.eqb_sym k i). destruct (Nat.eqb i k); [reflexivity|apply IH].
Qed.

Lemma am_get_find_Z : forall (tm : etmap) e,
    am_get Z.eqb tm e = option_map snd (find (fun kv => fst kv =? e) tm).
Proof.
  induction tm as [|[k t] r IH]; intros e; cbn; [reflexivity|].
  rewrite (Z.eqb_sym k e). destruct (e =? k); [reflexivity|apply IH].
Qed.

Lemma get_done_sp : forall p d i, get_done p d i = sp_done p d i.
Proof.
  intros p d i. destruct d as [|tm|tm|tm one| |row]; cbn.
  - unfold active_done. destruct (nth_error p i); reflexivity.
  - unfold overlap_done, target_of, sp_target_ok. rewrite am_get_find_nat.
    destruct (nth_error p i); [|reflexivity].
    destruct (find _ tm) as [[k t]|]; cbn; [|reflexivity].
    destruct (nth_error p t); reflexivity.
  - unfold tgtinactive_done, target_of, sp_target_ok. rewrite am_get_find_nat.
    destruct (nth_error p i); [|reflexivity].
    destruct (find _ tm) as [[k t]|]; cbn; [|reflexivity].
    destruct (nth_error p t); reflexivity.
  - unfold enc_done. destruct (nth_error p i) as [a|]; cbn; [|reflexivity].
    rewrite am_get_find_Z. destruct (find _ tm) as [[k t]|]; cbn; [|reflexivity].
    rewrite team_done_sp. reflexivity.
  - unfold active_done. destruct (nth_error p i); reflexivity.
  - unfold custom_done. destruct (nth_error p i); reflexivity.
Qed.

Lemma forallb_filter_imp {T} : forall (f g : T -> bool) l,
    forallb g (filter f l) = forallb (fun x => negb (f x) || g x) l.
Proof.
  intros f g l. induction l as [|x r IH]; cbn; [reflexivity|].
  destruct (f x); cbn; rewrite IH; reflexivity.
Qed.

Lemma forallb_map' {S T} : forall (f : T -> bool) (g : S -> T) l,
    forallb f (map g l) = forallb (fun x => f (g x)) l.
Proof. intros f g l. induction l as [|x r IH]; cbn; [reflexivity|rewrite IH; reflexivity]. Qed.

Lemma existsb_map' {S T} : forall (f : T -> bool) (g : S -> T) l,
    existsb f (map g l) = existsb (fun x => f (g x)) l.
Proof. intros f g l. induction l as [|x r IH]; cbn; [reflexivity|rewrite IH; reflexivity]. Qed.

Lemma forallb_ext' {T} : forall (f g : T -> bool) l, (forall x, f x = g x) -> forallb f l = forallb g l.
Proof. intros f g l H. induction l as [|x r IH]; cbn; [reflexivity|rewrite H, IH; reflexivity]. Qed.

Lemma existsb_ext' {T} : forall (f g : T -> bool) l, (forall x, f x = g x) -> existsb f l = existsb g l.
Proof. intros f g l H. induction l as [|x r IH]; cbn; [reflexivity|rewrite H, IH; reflexivity]. Qed.

Lemma get_all_done_sp : forall p d, get_all_done p d = sp_all_done p d.
Proof.
  intros p d. destruct d as [|tm|tm|tm one| |row]; cbn.
  - rewrite active_all_done_forallb. reflexivity.
  - unfold overlap_all_done. rewrite all_list_forallb, !forallb_map'.
    erewrite forallb_ext'; [|intros kv; change (overlap_done p tm (fst kv)) with
       (get_done p (DOverlap tm) (fst kv)); rewrite get_done_sp; reflexivity].
    destruct (forallb _ tm); [|reflexivity]. f_equal.
    apply forallb_ext'. intros kv. change (overlap_done p tm (fst kv)) with
       (get_done p (DOverlap tm) (fst kv)). rewrite get_done_sp. reflexivity.
  - unfold tgtinactive_all_done. rewrite all_list_forallb, !forallb_map'.
    erewrite forallb_ext'; [|intros kv; change (tgtinactive_done p tm (fst kv)) with
       (get_done p (DTgtInactive tm) (fst kv)); rewrite get_done_sp; reflexivity].
    destruct (forallb _ tm); [|reflexivity]. f_equal.
    apply forallb_ext'. intros kv. change (tgtinactive_done p tm (fst kv)) with
       (get_done p (DTgtInactive tm) (fst kv)). rewrite get_done_sp. reflexivity.
  - unfold enc_all_done. f_equal. destruct one.
    + rewrite existsb_map'. apply existsb_ext'. intros kv. apply team_done_sp.
    + rewrite forallb_map'. apply forallb_ext'. intros kv. apply team_done_sp.
  - f_equal. apply eq_true_iff_eq. rewrite oneteam_spec, sp_oneteam_spec. reflexivity.
  - unfold custom_all_done. rewrite forallb_filter_imp. reflexivity.
Qed.

Lemma forallb_combine_seq : forall (p : pop) d n,
    forallb (fun iv => ob_eqb (snd iv) (sp_done p d (fst iv)))
            (combine (seq n (length p - n)) (map (get_done p d) (seq n (length p - n)))) = true.
Proof.
  intros p d n. generalize (length p - n)%nat as k. intros k. revert n.
  induction k as [|k IH]; intros n; cbn; [reflexivity|].
  rewrite IH, get_done_sp. destruct (sp_done p d n) as [[|]|]; reflexivity.
Qed.

Lemma chk_C17_done_model_lemma : forall p d, chk_C17_done p d (done_behaviour p d) = 1.
Proof.
  intros p d. unfold chk_C17_done, done_behaviour. cbn [fst snd].
  rewrite map_length, seq_length, Nat.eqb_refl. cbn [negb].
  pose proof (forallb_combine_seq p d 0) as H. rewrite Nat.sub_0_r in H. rewrite H. cbn [negb].
  rewrite get_all_done_sp. destruct (sp_all_done p d) as [[|]|]; reflexivity.
Qed.
