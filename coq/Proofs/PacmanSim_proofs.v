(* The fifth end-to-end instance: Grid/PacmanSim.v's pacman_sim is a `simulation`.  PacmanSimSimple
   kills pacman and the food by setting their health to 0 and removing them from the grid, so the
   invariant of this simulation is the C03 invariant ginv itself; it is preserved by the drift moves
   (C12's model), by the repaired teleport (query, remove, place), by eating and by the direct kill,
   in every arm of `step` including the ones that raise. *)
From Coq Require Import ZArith List Bool Arith Lia.
From Abm Require Import Base.Sx Grid.Overlap Grid.Grid Grid.Move Grid.Attack Grid.Vis Grid.AttackRun
  Grid.Observe Grid.Play Grid.BattleSim Grid.PacmanSim Ctl.Managers Ctl.Trainer
  Proofs.Grid_proofs Proofs.Overlap_proofs Proofs.Move_proofs Proofs.Attack_proofs Proofs.Play_proofs
  Proofs.GridChk_proofs Proofs.PlayChk_proofs Proofs.Managers_proofs Proofs.Managers_hist
  Proofs.BattleSim_proofs.
From Abm Require Proofs.Trainer_proofs Proofs.Reset_proofs.
Import ListNotations.
Open Scope Z_scope.

(* ---- getters: what they leave alone ------------------------------------------------------------------ *)
Lemma pm_obs_frame cf st i :
  ps_grid (snd (pm_obs cf st i)) = ps_grid st /\ ps_starts (snd (pm_obs cf st i)) = ps_starts st /\
  ps_rew (snd (pm_obs cf st i)) = ps_rew st /\ ps_count (snd (pm_obs cf st i)) = ps_count st.
Proof.
  unfold pm_obs. destruct (nth_error (pc_kinds cf) i) as [[| |v|v]|]; cbn; auto;
    destruct (obs_absolute _ _ _ _ _); cbn; auto.
Qed.

Lemma pm_reward_frame cf st i :
  ps_grid (snd (pm_reward cf st i)) = ps_grid st /\ ps_starts (snd (pm_reward cf st i)) = ps_starts st /\
  ps_obsorc (snd (pm_reward cf st i)) = ps_obsorc st /\ ps_count (snd (pm_reward cf st i)) = ps_count st.
Proof.
  unfold pm_reward. destruct (p_learning cf i); [|cbn; auto].
  destruct (nth_error (ps_rew st) i); cbn; auto.
Qed.

Lemma p_greach_frame f cf s s' :
  greach (pacman_sim_gen f cf) s s' ->
  ps_grid s' = ps_grid s /\ ps_starts s' = ps_starts s /\ ps_count s' = ps_count s.
Proof.
  induction 1 as [s|s s' a _ IH|s s' a _ IH]; [auto| |]; cbn [pacman_sim_gen sim_obs sim_reward] in IH.
  - destruct (pm_obs_frame cf s a) as (E1 & E2 & _ & E4). destruct IH as (I1 & I2 & I3).
    repeat split; congruence.
  - destruct (pm_reward_frame cf s a) as (E1 & E2 & _ & E4). destruct IH as (I1 & I2 & I3).
    repeat split; congruence.
Qed.

(* get_done / get_all_done read the grid only *)
Theorem pacman_done_stable f cf : done_stable (pacman_sim_gen f cf).
Proof.
  intros s s' a G. destruct (p_greach_frame f cf s s' G) as (E & _).
  cbn [pacman_sim_gen sim_done]. unfold pm_done, pm_all. rewrite E. reflexivity.
Qed.

Lemma pacman_all_stable f cf s s' : greach (pacman_sim_gen f cf) s s' -> pm_all cf s' = pm_all cf s.
Proof. intros G. destruct (p_greach_frame f cf s s' G) as (E & _). unfold pm_all. rewrite E. reflexivity. Qed.

(* read-and-reset rewards *)
Theorem pm_reward_read_once cf st i x :
  p_learning cf i = true -> nth_error (ps_rew st) i = Some x ->
  fst (pm_reward cf st i) = x /\
  nth_error (ps_rew (snd (pm_reward cf st i))) i = Some 0 /\
  (forall j, j <> i -> nth_error (ps_rew (snd (pm_reward cf st i))) j = nth_error (ps_rew st) j) /\
  ps_bad (snd (pm_reward cf st i)) = ps_bad st.
Proof.
  intros Hl Hx. unfold pm_reward. rewrite Hl, Hx. cbn [fst snd mk ps_rew ps_bad].
  split; [reflexivity|]. split; [apply nth_error_upd_same with x, Hx|]. split; [|reflexivity].
  intros j N. apply nth_error_upd_other, N.
Qed.

(* ---- grid lemmas ---------------------------------------------------------------------------------------- *)
(* an agent that stands in no cell changes its vitals to an inactive record *)
Lemma out_of_grid_inv s v b b' :
  ginv s -> agent s v = Some b -> (forall p, ~ In v (cell_get (g_cells s) p)) ->
  a_enc b' = a_enc b -> a_active b' = false -> vitals_ok b' -> ginv (set_agent s v b').
Proof.
  intros [H1 H2 H3 H4 H5 H6] Hb Hno Ee Ea Hv.
  assert (En : forall j, enc_of (set_agent s v b') j = enc_of s j)
    by (intros j; apply enc_of_set_agent with b; [exact Hb|exact Ee]).
  constructor; cbn [g_ov g_cells set_agent]; try assumption.
  - intros p j Hj. destruct (Nat.eq_dec j v) as [->|N].
    + destruct (Hno p Hj).
    + rewrite agent_set_agent_other by exact N. apply H2, Hj.
  - intros j c p Nx Hc. destruct (Nat.eq_dec j v) as [->|N].
    + rewrite (agent_set_agent_same _ _ _ _ Hb) in Hc. injection Hc as <-. congruence.
    + rewrite agent_set_agent_other in Hc by exact N. apply (H4 j c p Nx Hc).
  - intros p j k Hj Hk N. rewrite !En. apply (H5 p); assumption.
  - intros j c Hc. destruct (Nat.eq_dec j v) as [->|N].
    + rewrite (agent_set_agent_same _ _ _ _ Hb) in Hc. injection Hc as <-. exact Hv.
    + rewrite agent_set_agent_other in Hc by exact N. apply (H6 j c Hc).
Qed.

Lemma with_health0_inactive a : a_active (with_health a 0) = false.
Proof. reflexivity. Qed.

Lemma in_cell_active s j q : ginv s -> In j (cell_get (g_cells s) q) ->
  exists b, agent s j = Some b /\ a_active b = true /\ a_pos b = Some q.
Proof. intros G H. exact (gi_cell_agent _ _ G q j H). Qed.

Lemma inactive_nowhere s j b : ginv s -> agent s j = Some b -> a_active b = false ->
  forall p, ~ In j (cell_get (g_cells s) p).
Proof.
  intros G Hb Ha p Hin. destruct (in_cell_active s j p G Hin) as (b' & Hb' & A & _). congruence.
Qed.

(* agent.health = 0 and Grid.remove(agent, cell), in either order *)
Lemma kill_either s j b q s1 :
  ginv s -> agent s j = Some b -> remove s j q = Some s1 ->
  ginv (set_agent s1 j (with_health b 0)) /\
  remove (set_agent s j (with_health b 0)) j q = Some (set_agent s1 j (with_health b 0)).
Proof.
  intros G Hb R. unfold remove in R.
  destruct (memn j (cell_get (g_cells s) q)) eqn:Em; [|discriminate]. injection R as <-.
  apply memn_In in Em as Hin. destruct (in_cell_active s j q G Hin) as (b0 & Hb0 & Hact & Hpos).
  assert (b0 = b) by congruence. subst b0.
  destruct (kill_inv s j b (with_health b 0) q G Hb Hact Hpos eq_refl eq_refl eq_refl)
    as (s2 & R2 & G2 & _).
  { apply with_health_vitals, (gi_vitals _ _ G j b Hb). }
  assert (E : remove (set_agent s j (with_health b 0)) j q =
              Some (set_agent (set_cells s (cell_set (g_cells s) q (dict_del (cell_get (g_cells s) q) j)))
                              j (with_health b 0))).
  { unfold remove. cbn [g_cells set_agent]. rewrite Em. reflexivity. }
  split; [|exact E]. rewrite E in R2. injection R2 as <-. exact G2.
Qed.

(* ---- the teleport (repaired) ------------------------------------------------------------------------------ *)
Definition tres_grid (t : tres) : gstate := match t with TOk g | TErr g => g end.

Lemma tele_fixed_inv g i from to : ginv g -> from <> to ->
  (forall a, agent g i = Some a -> a_pos a = Some from) ->
  ginv (tres_grid (tele_fixed g i from to)).
Proof.
  intros G N Hp. unfold tele_fixed. destruct (inside g to) eqn:Hin; [|exact G].
  destruct (Grid.query g i to) eqn:Hq; [|exact G].
  destruct (remove g i from) as [g1|] eqn:R; [|exact G]. cbn [tres_grid].
  assert (Hm : In i (cell_get (g_cells g) from)).
  { unfold remove in R. destruct (memn i (cell_get (g_cells g) from)) eqn:E; [|discriminate].
    apply memn_In, E. }
  destruct (in_cell_active g i from G Hm) as (a & Ha & Hact & Hpos).
  destruct (remove_spec g i a from G Ha Hact Hpos)
    as (s1 & R1 & Gx & Eag & Er & Ec & Eo & Hno & Hoth & _).
  rewrite R in R1. injection R1 as <-.
  assert (Ha1 : agent g1 i = Some a) by (unfold agent; rewrite Eag; exact Ha).
  assert (Hq1 : Grid.query g1 i to = true).
  { unfold Grid.query. rewrite Eo. unfold enc_of at 1. rewrite Ha1.
    rewrite (Hoth to) by congruence.
    unfold Grid.query in Hq. unfold enc_of at 1 in Hq. rewrite Ha in Hq.
    erewrite map_ext; [exact Hq|]. intros j. unfold enc_of, agent. rewrite Eag. reflexivity. }
  assert (Hin1 : inside g1 to = true) by (rewrite (inside_same g g1) by assumption; exact Hin).
  destruct (place_spec g1 i a to Gx Ha1 Hact Hno Hin1 Hq1) as (s2 & P & G2 & _).
  rewrite P. exact G2.
Qed.

Lemma tunnel_ne : tunnel_a <> tunnel_b.
Proof. discriminate. Qed.

Lemma teleport_inv g i : ginv g -> ginv (tres_grid (teleport true g i)).
Proof.
  intros G. unfold teleport. destruct (agent g i) as [a|] eqn:Ha; [|exact G].
  destruct (a_pos a) as [p|] eqn:Hp; [|exact G].
  destruct (cell_eqb p tunnel_a) eqn:Ea.
  - apply cell_eqb_eq in Ea. subst p. apply tele_fixed_inv; [exact G|exact tunnel_ne|].
    intros a' Ha'. congruence.
  - destruct (cell_eqb p tunnel_b) eqn:Eb; [|exact G].
    apply cell_eqb_eq in Eb. subst p. apply tele_fixed_inv; [exact G| |].
    + intros E. symmetry in E. exact (tunnel_ne E).
    + intros a' Ha'. congruence.
Qed.

(* ---- the overlap loops ------------------------------------------------------------------------------------ *)
Definition lres_grid (l : lres) : gstate := match l with LGo g _ | LDead g _ | LBad g _ => g end.

Lemma overlap_loop_inv cf eat cands : forall g r, ginv g -> ginv (lres_grid (overlap_loop cf eat cands g r)).
Proof.
  induction cands as [|j rest IH]; intros g r G; cbn [overlap_loop]; [exact G|].
  destruct (Nat.eqb j (pc_pac cf)); [apply IH, G|].
  destruct (eat && is_food (kind_of cf j)).
  - destruct (pac_pos cf g) as [q|]; [|exact G].
    destruct (remove g j q) as [g1|] eqn:R; [|exact G].
    destruct (agent g1 j) as [a|] eqn:Ha1.
    + apply IH.
      assert (Ha : agent g j = Some a).
      { unfold remove in R. destruct (memn j (cell_get (g_cells g) q)); [|discriminate].
        injection R as <-. exact Ha1. }
      exact (proj1 (kill_either g j a q g1 G Ha R)).
    + cbn [lres_grid]. unfold remove in R. destruct (memn j (cell_get (g_cells g) q)) eqn:Em; [|discriminate].
      injection R as <-. apply memn_In in Em.
      destruct (in_cell_active g j q G Em) as (b & Hb & _). unfold agent in *. cbn in Ha1. congruence.
  - destruct (is_baddie (kind_of cf j)); [|apply IH, G].
    destruct (agent g (pc_pac cf)) as [a|] eqn:Ha; [|exact G].
    assert (Hv : vitals_ok (with_health a 0)) by (apply with_health_vitals, (gi_vitals _ _ G _ a Ha)).
    destruct (a_active a) eqn:Hact.
    + destruct (a_pos a) as [q|] eqn:Hpos.
      * destruct (kill_inv g (pc_pac cf) a (with_health a 0) q G Ha Hact Hpos eq_refl eq_refl eq_refl Hv)
          as (s2 & R2 & G2 & _).
        rewrite R2. exact G2.
      * cbn [lres_grid]. apply out_of_grid_inv with a; auto.
        intros p Hin. destruct (in_cell_active g _ p G Hin) as (b & Hb & _ & P). congruence.
    + assert (G1 : ginv (set_agent g (pc_pac cf) (with_health a 0))).
      { apply out_of_grid_inv with a; auto. apply (inactive_nowhere g _ a G Ha Hact). }
      destruct (a_pos a) as [q|]; [|exact G1].
      destruct (remove _ _ q) as [g2|] eqn:R; [|exact G1].
      unfold remove in R. cbn [g_cells set_agent] in R.
      destruct (memn (pc_pac cf) (cell_get (g_cells g) q)) eqn:Em; [|discriminate].
      apply memn_In in Em. destruct (inactive_nowhere g _ a G Ha Hact q Em).
Qed.

(* ---- the baddies --------------------------------------------------------------------------------------------- *)
Lemma baddies_loop_inv cf moves : forall k g, ginv g -> ginv (tres_grid (baddies_loop true cf k moves g)).
Proof.
  induction moves as [|mv rest IH]; intros k g G; cbn [baddies_loop]; [exact G|].
  destruct (nth k (pc_bad cf) None) as [b|]; [|exact G].
  pose proof (move_drift_inv g b mv G) as Hm.
  destruct (move_drift g b mv) as [ok g1| | |]; try exact G.
  pose proof (teleport_inv g1 b Hm) as Ht.
  destruct (teleport true g1 b) as [g2|g2]; cbn [tres_grid] in Ht; [apply IH, Ht|exact Ht].
Qed.

(* ---- PacmanSimSimple.step (repaired): every action dictionary, every state ------------------------------- *)
Theorem pm_step_ginv cf st acts : ginv (ps_grid st) -> ginv (ps_grid (pm_step cf st acts)).
Proof.
  intros G. unfold pm_step, pm_step_gen.
  destruct (assoc acts (pc_pac cf)) as [ca|]; [|exact G].
  pose proof (move_drift_inv (ps_grid st) (pc_pac cf) ca G) as Hm.
  destruct (move_drift (ps_grid st) (pc_pac cf) ca) as [b g1| | |]; try exact G.
  pose proof (teleport_inv g1 (pc_pac cf) Hm) as Ht.
  destruct (teleport true g1 (pc_pac cf)) as [g2|g2]; cbn [tres_grid] in Ht; [|exact Ht].
  destruct (pac_cell cf g2) as [p|]; [|exact Ht].
  pose proof (overlap_loop_inv cf true (cell_get (g_cells g2) p) g2
                (radd (ps_rew st) (pc_pac cf) (if b then pc_entropy cf else pc_bad_move cf)) Ht) as H3.
  destruct (overlap_loop cf true _ g2 _) as [g3 r3|g3 r3|g3 r3]; cbn [lres_grid] in H3; try exact H3.
  destruct (script cf g3 (ps_count st)) as [moves|]; [|exact H3].
  pose proof (baddies_loop_inv cf moves 0 g3 H3) as H4.
  destruct (baddies_loop true cf 0 moves g3) as [g4|g4]; cbn [tres_grid] in H4; [|exact H4].
  destruct (pac_cell cf g4) as [p'|]; [|exact H4].
  pose proof (overlap_loop_inv cf false (cell_get (g_cells g4) p') g4 r3 H4) as H5.
  destruct (overlap_loop cf false _ g4 r3) as [g5 r5|g5 r5|g5 r5]; exact H5.
Qed.

Lemma pm_step_starts f cf st acts : ps_starts (pm_step_gen f cf st acts) = ps_starts st.
Proof.
  unfold pm_step_gen.
  repeat match goal with
         | |- context [match ?x with _ => _ end] => destruct x
         end; reflexivity.
Qed.

(* ---- every manager call keeps the invariant ------------------------------------------------------------------ *)
Definition ps_inv (st : pstate) : Prop := ginv (ps_grid st) /\ Forall ginv (ps_starts st).

Lemma pm_step_inv cf st acts : ps_inv st -> ps_inv (pm_step cf st acts).
Proof.
  intros [H1 H2]. split; [apply pm_step_ginv, H1|]. unfold pm_step. rewrite pm_step_starts. exact H2.
Qed.

Lemma pm_reset_inv cf st : ps_inv st -> ps_inv (pm_reset cf st).
Proof.
  intros [H1 H2]. unfold pm_reset. destruct (ps_starts st) as [|g0 rest]; split; cbn; auto.
  - inversion H2; assumption.
  - inversion H2; assumption.
Qed.

Lemma p_greach_inv cf s s' : greach (pacman_sim cf) s s' -> ps_inv s -> ps_inv s'.
Proof.
  intros G [H1 H2]. destruct (p_greach_frame true cf s s' G) as (E1 & E2 & _). split; congruence.
Qed.

(* one manager call, any manager, any call, in or out of protocol *)
Lemma p_do_call_inv cf k m c r m' :
  do_call (pacman_sim cf) k m c = (r, m') -> ps_inv (m_sim m) -> ps_inv (m_sim m').
Proof.
  intros E H. destruct (do_call_sim_reach (pacman_sim cf) k m c r m' E) as [Q|[Q|[l Q]]].
  - rewrite Q. exact H.
  - apply (p_greach_inv cf _ _ Q). apply pm_reset_inv, H.
  - apply (p_greach_inv cf _ _ Q). apply pm_step_inv, H.
Qed.

Theorem p_run_inv cf k cs : forall m,
  ps_inv (m_sim m) -> ps_inv (m_sim (snd (run (pacman_sim cf) k m cs))).
Proof.
  induction cs as [|c cs IH]; intros m H; cbn [run]; [exact H|].
  destruct (do_call (pacman_sim cf) k m c) as [r m1] eqn:E.
  specialize (IH m1 (p_do_call_inv cf k m c r m1 E H)).
  destruct (run (pacman_sim cf) k m1 cs) as [rs m2]. exact IH.
Qed.

Theorem p_trace_inv cf k cs : forall m ph,
  ps_inv (m_sim m) ->
  forall e, In e (trace (pacman_sim cf) k m ph cs) ->
    ps_inv (m_sim (te_pre e)) /\ ps_inv (m_sim (te_post e)).
Proof.
  induction cs as [|c cs IH]; intros m ph H e He; cbn [trace] in He; [destruct He|].
  destruct (do_call (pacman_sim cf) k m c) as [r m1] eqn:E.
  pose proof (p_do_call_inv cf k m c r m1 E H) as H1.
  destruct He as [<-|He]; [cbn; auto|]. exact (IH m1 _ H1 e He).
Qed.

(* reachable simulation states, every manager kind, every call list *)
Theorem pacman_ginv_reachable cf k s0 cs :
  ginv (ps_grid s0) -> Forall ginv (ps_starts s0) ->
  ginv (ps_grid (m_sim (snd (run (pacman_sim cf) k (init s0) cs)))) /\
  forall e, In e (trace (pacman_sim cf) k (init s0) Fresh cs) ->
    ginv (ps_grid (m_sim (te_pre e))) /\ ginv (ps_grid (m_sim (te_post e))).
Proof.
  intros H1 H2. assert (H : ps_inv (m_sim (init s0))) by (split; assumption). split.
  - apply (p_run_inv cf k cs (init s0) H).
  - intros e He. destruct (p_trace_inv cf k cs (init s0) Fresh H e He) as [[A _] [B _]]. auto.
Qed.

Theorem prun_snap_inv cf k cs : forall m,
  ps_inv (m_sim m) -> Forall (fun rg => ginv (fst (snd rg))) (fst (prun_snap (pacman_sim cf) k m cs)).
Proof.
  induction cs as [|c cs IH]; intros m H; cbn [prun_snap]; [constructor|].
  destruct (do_call (pacman_sim cf) k m c) as [r m1] eqn:E.
  pose proof (p_do_call_inv cf k m c r m1 E H) as H1. specialize (IH m1 H1).
  destruct (prun_snap (pacman_sim cf) k m1 cs) as [rs m2]. cbn [fst snd] in *.
  constructor; [exact (proj1 H1)|exact IH].
Qed.

Lemma prun_snap_run Sm k cs : forall m,
  map fst (fst (prun_snap Sm k m cs)) = fst (run Sm k m cs) /\
  snd (prun_snap Sm k m cs) = snd (run Sm k m cs).
Proof.
  induction cs as [|c cs IH]; intros m; cbn [prun_snap run]; [auto|].
  destruct (do_call Sm k m c) as [r m1]. specialize (IH m1).
  destruct (prun_snap Sm k m1 cs) as [rs m2]. destruct (run Sm k m1 cs) as [rs' m2'].
  cbn [fst snd map] in *. destruct IH as [-> ->]. auto.
Qed.

(* ---- the generic manager / trainer theorems, instantiated --------------------------------------------------- *)
(* pacman is a PacmanAgent (a learning agent) of the listing *)
Definition pac_ok (cf : pcfg) : Prop := exists v, nth_error (pc_kinds cf) (pc_pac cf) = Some (KPac v).

Lemma pacman_order_nonempty f cf : pac_ok cf -> order (pacman_sim_gen f cf) <> [].
Proof.
  intros (v & Ek) E.
  assert (Hin : In (pc_pac cf) (order (pacman_sim_gen f cf))).
  { apply order_In_iff. split.
    - apply agents_In. cbn [pacman_sim_gen sim_n]. apply nth_error_Some. congruence.
    - cbn [pacman_sim_gen sim_learning]. unfold p_learning. rewrite Ek. reflexivity. }
  rewrite E in Hin. destruct Hin.
Qed.

Theorem pacman_done_once_turn cf s0 cs :
  in_protocol (trace (pacman_sim cf) MTurn (init s0) Fresh cs) ->
  NoDup (ep_dones (trace (pacman_sim cf) MTurn (init s0) Fresh cs) []).
Proof. apply once_turn, pacman_done_stable. Qed.

Theorem pacman_trainer_never_fails PS cf pmap (pol_act : PS -> nat -> list (list Z) -> Z * PS)
        pol_reset shuf h k m ps :
  pac_ok cf -> k = MAll \/ k = MTurn ->
  er_status (generate_episode (pacman_sim cf) pmap pol_act pol_reset shuf h k m ps) = EOk /\
  exists obs, er_reset (generate_episode (pacman_sim cf) pmap pol_act pol_reset shuf h k m ps) = RObs obs.
Proof.
  intros T Hk. apply Trainer_proofs.never_fails.
  - unfold Trainer_proofs.tk; tauto.
  - unfold Trainer_proofs.sim_ok. split; [intros _; apply pacman_done_stable|]. split.
    + intros ->. destruct Hk; discriminate.
    + intros _. apply pacman_order_nonempty, T.
Qed.

Theorem pacman_episode_indistinguishable cf k m1 m2 cs :
  pac_ok cf -> k <> MTurnPrefix ->
  pm_reset cf (m_sim m1) = pm_reset cf (m_sim m2) ->
  fst (run (pacman_sim cf) k m1 (CReset :: cs)) = fst (run (pacman_sim cf) k m2 (CReset :: cs)).
Proof.
  intros T Hk E. apply Reset_proofs.episode_indistinguishable; [exact Hk| |exact E].
  intros _. apply pacman_order_nonempty, T.
Qed.

Theorem pacman_invariants_all cf s0 cs :
  ginv (ps_grid s0) -> Forall ginv (ps_starts s0) ->
  in_protocol (trace (pacman_sim cf) MAll (init s0) Fresh cs) ->
  forall e, In e (trace (pacman_sim cf) MAll (init s0) Fresh cs) ->
    (te_ph e <> Fresh -> incl (nonlearning (pacman_sim cf)) (m_done (te_pre e))) /\
    ginv (ps_grid (m_sim (te_pre e))) /\ ginv (ps_grid (m_sim (te_post e))) /\
    do_call (pacman_sim cf) MAll (te_pre e) (te_call e) = (te_resp e, te_post e) /\
    NoDup (ep_dones (trace (pacman_sim cf) MAll (init s0) Fresh cs) []).
Proof.
  intros G Gs Hp e He.
  destruct (hist_inv_all (pacman_sim cf) s0 cs Hp e He) as (N & D).
  destruct (proj2 (pacman_ginv_reachable cf MAll s0 cs G Gs) e He) as [A B].
  split; [exact N|]. split; [exact A|]. split; [exact B|]. split; [exact D|]. apply once_all, Hp.
Qed.

(* manager o simulation: under the all-step manager every done flag of an accepted step is `pacman is
   not active, or the listing has no FoodAgent` in the grid the call leaves, and so is `__all__`
   unless everybody has been reported *)
Theorem pacman_all_done_entries cf m acts sh o m' :
  all_step (pacman_sim cf) m acts sh = (ROut o, m') ->
  (forall a b, In (a, b) (o_done o) -> b = pm_all cf (m_sim m')) /\
  o_all o = pm_all cf (m_sim m') || all_in (pacman_sim cf) (m_done m').
Proof.
  unfold all_step. destruct (existsb _ acts); [discriminate|].
  destruct (thread _ _ _) as [obs s2]. destruct (thread (sim_reward _) s2 _) as [rew s3].
  intros E. injection E as <- <-. cbn [o_done o_all m_sim m_done]. split; [|reflexivity].
  intros a b Hin. apply in_map_iff in Hin as (x & Ex & _). injection Ex as _ <-. reflexivity.
Qed.

(* ---- a concrete world: 10 x 19, tunnel row 9 ------------------------------------------------------------------
   agents: 0 pacman (9,3) heading left, 1 food (9,2), 2..6 baddie_0..4 (baddie_2 in the corridor at (9,14)
   heading left: the script turns it right at step 0), 7 a wall at `w` *)
Definition px_ag (e : Z) (p : cell) (o : option Z) : arec :=
  {| a_enc := e; a_pos := Some p; a_health := HD; a_active := true; a_ammo := None; a_orient := o;
     a_blocking := false |}.
Definition px_ov : otable := [(1, [3; 4]); (4, [3; 4])].
Definition px_start (pac w : cell) : gstate :=
  init_state 10 19 px_ov
    [px_ag 1 pac (Some 1); px_ag 3 (9, 2) None; px_ag 4 (0, 1) (Some 1); px_ag 4 (0, 17) (Some 1);
     px_ag 4 (9, 14) (Some 1); px_ag 4 (2, 1) (Some 1); px_ag 4 (2, 17) (Some 1); px_ag 2 w None].
Definition px_cf : pcfg :=
  {| pc_kinds := [KPac 2; KFood; KBad 0; KBad 0; KBad 0; KBad 0; KBad 0; KWall]; pc_pac := 0%nat;
     pc_bad := [Some 2%nat; Some 3%nat; Some 4%nat; Some 5%nat; Some 6%nat];
     pc_bad_move := -10; pc_entropy := -1; pc_eat := 10; pc_die := -100 |}.
Definition px_s0 (pac w : cell) (oo : list Z) : pstate := pm_init 10 19 px_ov [px_start pac w] oo.
Definition px_step (mv : Z) : call Z := CStep [(0%nat, mv)] [(0%nat, mv)].

Lemma px_pac_ok : pac_ok px_cf.
Proof. exists 2. reflexivity. Qed.

Lemma px_start_ginv pac w : inside (px_start (0, 0) (0, 0)) pac = true -> inside (px_start (0, 0) (0, 0)) w = true ->
  ginv (px_start pac w).
Proof.
  intros Hp Hw. apply init_state_inv.
  - intros a b. apply overlap_symmetric. repeat constructor; cbn; intuition discriminate.
  - apply (forallb_Forall vitals_okb); [exact vitals_okb_ok|reflexivity].
  - apply (forallb_Forall a_active); [auto|reflexivity].
  - unfold inside in Hp, Hw. cbn [g_rows g_cols px_start init_state place_all] in Hp, Hw.
    repeat constructor; cbn [a_pos px_ag fst snd]; try reflexivity; assumption.
Qed.

Lemma px_s0_inv pac w oo : inside (px_start (0, 0) (0, 0)) pac = true -> inside (px_start (0, 0) (0, 0)) w = true ->
  ps_inv (px_s0 pac w oo).
Proof.
  intros Hp Hw. split.
  - cbn [px_s0 pm_init ps_grid]. apply ginv_empty; [|constructor|constructor].
    intros a b. apply overlap_symmetric. repeat constructor; cbn; intuition discriminate.
  - constructor; [apply px_start_ginv; assumption|constructor].
Qed.

(* non-vacuity (the observer's draws: the pellet, twice baddie_2): pacman eats a pellet (+0.10 - 0.01), walks to (9,0) and comes out at (9,18), drifts into
   baddie_2 and is eaten (-1 - 0.01): inactive, health 0, in no cell, everybody done, step_count stays 3 *)
Definition px_calls : list (call Z) := [CReset; px_step 1; px_step 0; px_step 0; px_step 0].

Lemma px_nonvacuous :
  let s0 := px_s0 (9, 3) (5, 5) [3; 4; 4] in
  ps_inv s0 /\ pac_ok px_cf /\
  in_protocol (trace (pacman_sim px_cf) MAll (init s0) Fresh px_calls) /\
  (let r := prun_snap (pacman_sim px_cf) MAll (init s0) px_calls in
   map (fun x => match fst x with
                 | ROut o => (assoc (o_rew o) 0, assoc (o_done o) 0, o_all o)
                 | _ => (None, None, false) end) (fst r)
     = [(None, None, false); (Some 9, Some false, false); (Some (-1), Some false, false);
        (Some (-1), Some false, false); (Some (-101), Some true, true)] /\
   map (fun x => (option_map (fun a => (a_pos a, a_active a, a_health a)) (agent (fst (snd x)) 0), snd (snd x)))
       (fst r)
     = [(Some (Some (9, 3), true, HD), 0); (Some (Some (9, 2), true, HD), 1); (Some (Some (9, 1), true, HD), 2);
        (Some (Some (9, 18), true, HD), 3); (Some (Some (9, 17), false, 0), 3)] /\
   map (fun x => ginvb (fst (snd x))) (fst r) = [0; 0; 0; 0; 0] /\
   ps_bad (m_sim (snd r)) = false /\
   option_map (fun a => (a_active a, a_health a)) (agent (ps_grid (m_sim (snd r))) 1) = Some (false, 0) /\
   cell_get (g_cells (ps_grid (m_sim (snd r)))) (9, 2) = [] /\
   cell_get (g_cells (ps_grid (m_sim (snd r)))) (9, 17) = [4%nat] /\
   length (m_done (snd r)) = 8%nat).
Proof.
  cbv zeta. split; [apply px_s0_inv; reflexivity|]. split; [exact px_pac_ok|].
  split; [apply in_protocolb_ok; vm_compute; reflexivity|]. vm_compute. repeat split; reflexivity.
Qed.

(* ---- the tree as found (findings/C03-pacman-blocked-teleport) -----------------------------------------------
   A wall stands on the tunnel end (9,18); pacman walks left from (9,1) to (9,0).  The step as found removes
   pacman from (9,0), Grid.place on (9,18) refuses, the result is ignored: pacman is active, positioned at
   (9,0) and stored in no cell (clause 303 of the invariant test); its next move raises KeyError.  The
   repaired step asks Grid.query first and leaves pacman on (9,0). *)
Theorem blocked_teleport_prefix_refuted :
  exists cf s0 cs,
    pac_ok cf /\ ps_inv s0 /\ ps_bad s0 = false /\
    in_protocol (trace (pacman_sim cf) MAll (init s0) Fresh cs) /\
    (let m := snd (run (pacman_sim_prefix cf) MAll (init s0) cs) in
     ginvb (ps_grid (m_sim m)) = 303 /\ ps_bad (m_sim m) = false /\
     option_map (fun a => (a_pos a, a_active a)) (agent (ps_grid (m_sim m)) 0) = Some (Some (9, 0), true) /\
     cell_get (g_cells (ps_grid (m_sim m))) (9, 0) = [] /\
     ps_bad (m_sim (snd (run (pacman_sim_prefix cf) MAll (init s0) (cs ++ [px_step 0])))) = true) /\
    (let m := snd (run (pacman_sim cf) MAll (init s0) (cs ++ [px_step 0])) in
     ginvb (ps_grid (m_sim m)) = 0 /\ ps_bad (m_sim m) = false /\
     cell_get (g_cells (ps_grid (m_sim m))) (9, 0) = [0%nat]).
Proof.
  exists px_cf, (px_s0 (9, 1) (9, 18) [3; 3; 3; 3]), [CReset; px_step 1].
  split; [exact px_pac_ok|]. split; [apply px_s0_inv; reflexivity|]. split; [reflexivity|].
  split; [apply in_protocolb_ok; vm_compute; reflexivity|]. vm_compute. repeat split; reflexivity.
Qed.
