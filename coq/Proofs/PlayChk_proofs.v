(* C03: the executable invariant test ginvb (Grid/Play.v) against the invariant ginv:
   completeness (ginv and "every active agent has a position" make it answer 0), soundness (answer 0
   gives the readable clauses for the cells of the grid), and chk_C03_model: it answers 0 on every
   state the model reaches by any interleaving, also through the snapshot codec. *)
From Coq Require Import ZArith List Bool Arith Lia.
From Abm Require Import Base.Sx Grid.Overlap Grid.Grid Grid.Move Grid.Attack Grid.Vis Grid.AttackRun
  Grid.Play Proofs.Grid_proofs Proofs.Move_proofs Proofs.Attack_proofs Proofs.Play_proofs
  Proofs.GridChk_proofs.
Import ListNotations.
Open Scope Z_scope.

(* ---- every active agent has a position ------------------------------------------------------------ *)
Definition all_placed (s : gstate) : Prop :=
  forall a, In a (g_agents s) -> a_active a = true -> exists p, a_pos a = Some p.

Definition posd (s : gstate) : Prop :=
  forall i a, agent s i = Some a -> a_active a = true -> a_pos a <> None.

Lemma all_placed_posd s : all_placed s <-> posd s.
Proof.
  unfold all_placed, posd, agent. split.
  - intros H i a Ha Hact. apply nth_error_In in Ha. destruct (H a Ha Hact) as (p & ->). discriminate.
  - intros H a Ha Hact. apply In_nth_error in Ha as (i & Hi). specialize (H i a Hi Hact).
    destruct (a_pos a) as [p|]; [exists p; reflexivity|congruence].
Qed.

Lemma posd_srel s s' : srel s s' -> posd s -> posd s'.
Proof.
  intros (_ & _ & _ & _ & Hr) H i a' Ha' Hact'.
  destruct (Hr i a' Ha') as (a & Ha & (_ & _ & _ & _ & Ract & Rpos)).
  apply Rpos, (H i a Ha), Ract, Hact'.
Qed.

Theorem srel_do_pop vis s o : srel s (do_pop vis s o).
Proof.
  destruct o as [m|a]; cbn [do_pop].
  - apply (srel_do_mop s m).
  - pose proof (srel_process_attack vis s (op_cfg a) (op_att a) (op_orc a) (op_act a)) as H.
    destruct (process_attack vis s (op_cfg a) (op_att a) (op_orc a) (op_act a)); auto using srel_refl.
Qed.

Theorem srel_play vis ops : forall s, srel s (play vis s ops).
Proof.
  unfold play. induction ops as [|o r IH]; intros s; cbn [fold_left]; [apply srel_refl|].
  apply srel_trans with (do_pop vis s o); [apply srel_do_pop|apply IH].
Qed.

(* preserved by every operation, hence along every interleaving *)
Theorem all_placed_do_pop vis s o : all_placed s -> all_placed (do_pop vis s o).
Proof. rewrite !all_placed_posd. apply posd_srel, srel_do_pop. Qed.

Theorem all_placed_play vis ops s : all_placed s -> all_placed (play vis s ops).
Proof. rewrite !all_placed_posd. apply posd_srel, srel_play. Qed.

(* ---- the clauses of ginvb --------------------------------------------------------------------------- *)
Lemma vitals_b_complete a : vitals_ok a -> vitals_b a = true.
Proof.
  intros (V1 & V2 & V3 & V4). unfold vitals_b. rewrite !andb_true_iff. split; [split; [split; [split|]|]|].
  - apply Z.leb_le. lia.
  - apply Z.leb_le. lia.
  - rewrite V2. apply eqb_reflx.
  - destruct (a_ammo a) as [m|]; [|reflexivity]. apply Z.leb_le, V3. reflexivity.
  - destruct (a_orient a) as [o|]; [|reflexivity]. specialize (V4 o eq_refl).
    apply andb_true_iff. split; apply Z.leb_le; lia.
Qed.

Lemma vitals_b_sound a : vitals_b a = true -> vitals_ok a.
Proof. exact (vitals_okb_ok a). Qed.

Lemma pairwise_complete {X} (f : X -> X -> bool) l :
  NoDup l -> (forall i j, In i l -> In j l -> i <> j -> f i j = true) -> pairwise f l = true.
Proof.
  induction l as [|x r IH]; intros Hnd H; cbn [pairwise]; [reflexivity|].
  inversion Hnd as [|? ? Hx Hr]; subst. apply andb_true_iff. split.
  - apply forallb_forall. intros y Hy. apply H; [left; reflexivity|right; exact Hy|].
    intros ->. contradiction.
  - apply IH; [exact Hr|]. intros i j Hi Hj. apply H; right; assumption.
Qed.

Lemma pairwise_sound {X} (f : X -> X -> bool) l : pairwise f l = true ->
  forall i j, In i l -> In j l -> i <> j -> f i j = true \/ f j i = true.
Proof.
  induction l as [|x r IH]; intros H i j Hi Hj N; [destruct Hi|].
  cbn [pairwise] in H. apply andb_true_iff in H as [H1 H2]. rewrite forallb_forall in H1.
  destruct Hi as [<-|Hi], Hj as [<-|Hj].
  - congruence.
  - left. apply H1, Hj.
  - right. apply H1, Hi.
  - apply (IH H2 i j Hi Hj N).
Qed.

Theorem ginvb_complete s : ginv s -> all_placed s -> ginvb s = 0.
Proof.
  intros G Hpl. pose proof G as [H1 H2 H3 H4 H5 H6]. unfold ginvb.
  assert (E1 : forallb vitals_b (g_agents s) = true).
  { apply forallb_forall. intros a Ha. apply In_nth_error in Ha as (i & Hi).
    apply vitals_b_complete, (H6 i a Hi). }
  assert (E2 : forallb (placed_b s) (g_agents s) = true).
  { apply forallb_forall. intros a Ha. unfold placed_b. destruct (a_active a) eqn:Hact; [|reflexivity].
    cbn [negb orb]. destruct (Hpl a Ha Hact) as (p & Hp). rewrite Hp.
    apply In_nth_error in Ha as (i & Hi). apply (H4 i a p ltac:(discriminate) Hi Hact Hp). }
  assert (E4 : overlap_b s = true).
  { unfold overlap_b. apply forallb_forall. intros p _. apply pairwise_complete; [apply H3|].
    intros i j Hi Hj N. rewrite (H5 p i j Hi Hj N), (H5 p j i Hj Hi (not_eq_sym N)). reflexivity. }
  rewrite E1, E2, (ginv_cells_consistent s G), E4. reflexivity.
Qed.

(* what answer 0 establishes: the clauses of the property for the cells of the grid *)
Theorem ginvb_sound s : ginvb s = 0 ->
  (* vitals *)
  (forall i a, agent s i = Some a ->
     0 <= a_health a <= HD /\ (a_health a = 0 -> a_active a = false) /\
     (a_active a = true <-> 0 < a_health a) /\
     (forall m, a_ammo a = Some m -> 0 <= m) /\ (forall o, a_orient a = Some o -> 1 <= o <= 4)) /\
  (* every active agent is stored in exactly one cell of the grid: its position, inside *)
  (forall i a, agent s i = Some a -> a_active a = true ->
     exists p, a_pos a = Some p /\ inside s p = true /\ In i (cell_get (g_cells s) p) /\
               NoDup (cell_get (g_cells s) p) /\
               forall q, inside s q = true -> In i (cell_get (g_cells s) q) -> q = p) /\
  (* a cell of the grid holds only active agents positioned there *)
  (forall p i, inside s p = true -> In i (cell_get (g_cells s) p) ->
     exists a, agent s i = Some a /\ a_active a = true /\ a_pos a = Some p) /\
  (* no cell of the grid holds two agents whose encodings may not overlap *)
  (forall p i j, inside s p = true -> In i (cell_get (g_cells s) p) -> In j (cell_get (g_cells s) p) ->
     i <> j -> ov_allowed (g_ov s) (enc_of s i) (enc_of s j) = true).
Proof.
  unfold ginvb.
  destruct (forallb vitals_b (g_agents s)) eqn:E1; cbn [negb]; [|discriminate].
  destruct (forallb (placed_b s) (g_agents s)) eqn:E2; cbn [negb]; [|discriminate].
  destruct (cells_consistent s) eqn:E3; cbn [negb]; [|discriminate].
  destruct (overlap_b s) eqn:E4; cbn [negb]; [|discriminate]. intros _.
  rewrite forallb_forall in E1, E2. pose proof (cells_consistent_sound s E3) as C.
  split; [|split; [|split]].
  - intros i a Ha. unfold agent in Ha. apply nth_error_In in Ha.
    destruct (vitals_b_sound a (E1 a Ha)) as (V1 & V2 & V3 & V4).
    split; [exact V1|]. split; [|split; [|split; assumption]].
    + intros E. rewrite V2, E. reflexivity.
    + rewrite V2. split; intros E; apply Z.ltb_lt, E.
  - intros i a Ha Hact. pose proof Ha as Hin. unfold agent in Hin. apply nth_error_In in Hin.
    specialize (E2 a Hin). unfold placed_b in E2. rewrite Hact in E2. cbn [negb orb] in E2.
    destruct (a_pos a) as [p|] eqn:Hp; [|discriminate]. exists p.
    destruct (C p E2) as [Hnd Hiff]. split; [reflexivity|]. split; [exact E2|].
    split; [apply Hiff; exists a; auto|]. split; [exact Hnd|].
    intros q Hq Hi. destruct (C q Hq) as [_ Hiff']. apply Hiff' in Hi as (a' & Ha' & _ & Hp'). congruence.
  - intros p i Hp Hi. destruct (C p Hp) as [_ Hiff]. apply Hiff, Hi.
  - intros p i j Hp Hi Hj N. unfold overlap_b in E4. rewrite forallb_forall in E4.
    apply inside_all_cells in Hp. specialize (E4 p Hp).
    destruct (pairwise_sound _ _ E4 i j Hi Hj N) as [H|H]; apply andb_true_iff in H; apply H.
Qed.

(* ---- chk_C03_model ------------------------------------------------------------------------------------ *)
(* on decoded states: the invariant test answers 0 in every state reachable by any interleaving
   of moves and attacks, for every visibility function and all random draws *)
Theorem ginvb_play vis ops s : ginv s -> all_placed s -> ginvb (play vis s ops) = 0.
Proof. intros G P. apply ginvb_complete; [apply play_inv, G|apply all_placed_play, P]. Qed.

Lemma enc_of_hdr s1 s2 i : hdr s1 s2 -> enc_of s1 i = enc_of s2 i.
Proof. intros H. unfold enc_of. rewrite (agent_hdr _ _ i H). reflexivity. Qed.

Lemma map_ext_in' {X Y} (f g : X -> Y) l : (forall x, In x l -> f x = g x) -> map f l = map g l.
Proof. apply map_ext_in. Qed.

Lemma ginvb_sim s1 s2 : sim s1 s2 -> ginvb s1 = ginvb s2.
Proof.
  intros Hs. pose proof (cells_consistent_sim _ _ Hs) as Ecc. destruct Hs as [Hh Hc].
  unfold ginvb. rewrite Ecc.
  assert (Eov : overlap_b s1 = overlap_b s2).
  { unfold overlap_b. rewrite (all_cells_hdr _ _ Hh). apply forallb_ext_in. intros p Hp.
    rewrite (Hc p Hp). destruct Hh as (_ & _ & Eo & Ea). rewrite Eo. unfold enc_of, agent. rewrite Ea.
    reflexivity. }
  rewrite Eov. destruct Hh as (Er & Ec & _ & Ea). rewrite Ea.
  assert (Epl : forallb (placed_b s1) (g_agents s2) = forallb (placed_b s2) (g_agents s2)).
  { apply forallb_ext_in. intros a _. unfold placed_b, inside. rewrite Er, Ec. reflexivity. }
  rewrite Epl. reflexivity.
Qed.

(* through the codec: the extracted checker loop on the records the extracted play model emits *)
Theorem chk_snaps_model ops : forall s0 s, ginv s -> all_placed s -> srel s0 s ->
  chk_snaps s0 (run_pops s ops) = 0.
Proof.
  induction ops as [|o r IH]; intros s0 s G P Hr; [reflexivity|].
  cbn [run_pops chk_snaps]. set (s' := do_pop vis_model s o).
  assert (Hr' : srel s0 s') by (apply srel_trans with s; [exact Hr|apply srel_do_pop]).
  pose proof Hr' as (Er & Ec & Eo & El & _).
  destruct (dec_enc_snapshot s0 s' Er Ec Eo El) as (sh' & Ed & Hs). rewrite Ed.
  assert (G' : ginv s') by (apply do_pop_inv, G).
  assert (P' : all_placed s') by (apply all_placed_do_pop, P).
  rewrite (ginvb_sim _ _ Hs), (ginvb_complete s' G' P'). cbn [Z.eqb].
  apply IH; assumption.
Qed.

Theorem run_chk_C03_model xin s0 xops ops :
  dec_grid_input xin = Some (s0, xops) -> all_some (map dec_pop xops) = Some ops ->
  ginv s0 -> all_placed s0 ->
  run_chk_C03 (L [xin; run_play xin]) = A 1.
Proof.
  intros E1 E2 G P. unfold run_chk_C03, run_play. rewrite E1, E2.
  destruct (dec_enc_snapshot s0 s0 eq_refl eq_refl eq_refl eq_refl) as (sh & Ed & Hs). rewrite Ed.
  rewrite (ginvb_sim _ _ Hs), (ginvb_complete s0 G P). cbn [Z.eqb negb].
  rewrite (chk_snaps_model ops s0 s0 G P (srel_refl s0)). reflexivity.
Qed.

Lemma all_placed_b s :
  forallb (fun a => negb (a_active a) || match a_pos a with Some _ => true | None => false end)
          (g_agents s) = true -> all_placed s.
Proof.
  intros H a Ha Hact. rewrite forallb_forall in H. specialize (H a Ha). rewrite Hact in H.
  destruct (a_pos a) as [p|]; [exists p; reflexivity|discriminate].
Qed.

Corollary chk_snaps_model0 ops s0 : ginv s0 -> all_placed s0 -> chk_snaps s0 (run_pops s0 ops) = 0.
Proof. intros G P. exact (chk_snaps_model ops s0 s0 G P (srel_refl s0)). Qed.
