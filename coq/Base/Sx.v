(* Wire format between the Python harness and the extracted model:
   s-expressions over integers.  No proofs in this file. *)
From Coq Require Import ZArith List Bool.
Import ListNotations.
Open Scope Z_scope.

Inductive sx := A (z : Z) | L (l : list sx).

(* malformed input marker: never a value that could look like a result *)
Definition sx_err : sx := A (-999).

Definition sxZ (x : sx) : option Z := match x with A z => Some z | L _ => None end.
Definition sxL (x : sx) : option (list sx) := match x with L l => Some l | A _ => None end.

Fixpoint all_some {T} (l : list (option T)) : option (list T) :=
  match l with
  | [] => Some []
  | None :: _ => None
  | Some x :: r => match all_some r with Some r' => Some (x :: r') | None => None end
  end.

Definition sxZs (x : sx) : option (list Z) :=
  match x with L l => all_some (map sxZ l) | A _ => None end.

Definition sxZZs (x : sx) : option (list (list Z)) :=
  match x with L l => all_some (map sxZs l) | A _ => None end.

Definition sxB (x : sx) : option bool :=
  match x with A 0 => Some false | A 1 => Some true | _ => None end.

Definition sxBs (x : sx) : option (list bool) :=
  match x with L l => all_some (map sxB l) | A _ => None end.

Definition sxPair (x : sx) : option (Z * Z) :=
  match x with L [A a; A b] => Some (a, b) | _ => None end.

Definition sxPairs (x : sx) : option (list (Z * Z)) :=
  match x with L l => all_some (map sxPair l) | A _ => None end.

Definition ofZs (l : list Z) : sx := L (map A l).
Definition ofZZs (l : list (list Z)) : sx := L (map ofZs l).
Definition ofB (b : bool) : sx := A (if b then 1 else 0).
Definition ofBs (l : list bool) : sx := L (map ofB l).
Definition ofPair (p : Z * Z) : sx := L [A (fst p); A (snd p)].
Definition ofPairs (l : list (Z * Z)) : sx := L (map ofPair l).
Definition ofNat (n : nat) : sx := A (Z.of_nat n).
Definition ofNats (l : list nat) : sx := L (map ofNat l).
Definition sxNat (x : sx) : option nat :=
  match x with A z => if z <? 0 then None else Some (Z.to_nat z) | L _ => None end.
Definition sxNats (x : sx) : option (list nat) :=
  match x with L l => all_some (map sxNat l) | A _ => None end.
Definition ofOptZ (o : option Z) : sx := match o with Some z => L [A z] | None => L [] end.
Definition sxOptZ (x : sx) : option (option Z) :=
  match x with L [A z] => Some (Some z) | L [] => Some None | _ => None end.

(* structural equality on s-expressions (used by checkers) *)
Fixpoint sx_eqb (x y : sx) : bool :=
  match x, y with
  | A a, A b => a =? b
  | L l, L m =>
      (fix go (l m : list sx) : bool :=
         match l, m with
         | [], [] => true
         | a :: l', b :: m' => sx_eqb a b && go l' m'
         | _, _ => false
         end) l m
  | _, _ => false
  end.
