(* One entry point for the extracted binary: component id -> runner. *)
From Coq Require Import ZArith List.
From Abm Require Import Base.Sx Spaces.Space Spaces.Ravel Spaces.Flatten Ctl.Managers Ctl.ScriptSim Ctl.MgrCheck.
Open Scope Z_scope.

Definition run_model (id : Z) (x : sx) : sx :=
  match id with
  | 401 => run_ravel x
  | 402 => run_chk_C04 x
  | 501 => run_flatten x
  | 502 => run_chk_C05 x
  | 101 => run_managers x
  | 102 => run_chk_mgr 1 x
  | 702 => run_chk_mgr 7 x
  | _ => sx_err
  end.
