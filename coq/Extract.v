(* Extraction of the executable models.  ExtrOcamlBasic only: bool, option, unit, list,
   prod, sumbool, sumor are mapped to OCaml's own; Z, positive, nat stay extracted
   inductive types.  No Extract Constant / Extract Inductive of our own. *)
From Coq Require Import ZArith List.
From Coq Require Extraction.
Require Import ExtrOcamlBasic.
From Abm Require Import Base.Sx Dispatch.
Extraction Language OCaml.
Extraction "model.ml" run_model.
