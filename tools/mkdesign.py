#!/usr/bin/env python3
"""Assembles /verif/DESIGN.md from design/_00_head.md, design/Cxx.md, design/_60_findings.md,
design/_70_env.md, generated tables (cost per check from evidence/, seeded changes from seeded/),
design/_99_appendix.md."""
import glob, json, os
V = os.path.dirname(os.path.dirname(os.path.abspath(__file__)))
rd = lambda p: open(os.path.join(V, p)).read().rstrip() + "\n"
out = [rd("design/_00_head.md")]
out.append("## 5. Per-property design, as built\n\nThe shared abstract simulation is the record `simulation` of `Ctl/Managers.v` "
           "(state type and getters; `get_obs`/`get_reward` may have effects, `get_done`/`get_all_done`/`get_info`/`next_agent` "
           "are pure); the scripted instance is `Ctl/ScriptSim.v` / `harness/stubsim.py`. The grid family shares `Grid/Grid.v` "
           "(state), `Grid/Overlap.v` (overlap table), `Grid/Vis.v` (visibility = C10's mask specification) and the invariant "
           "`ginv` of `Proofs/Grid_proofs.v`. Each subsection below was written when the property's check was finished.\n")
for i in range(1, 21):
    f = f"design/C{i:02d}.md"
    if os.path.exists(os.path.join(V, f)):
        txt = rd(f)
        if not txt.lstrip().startswith("#"):
            txt = f"### C{i:02d} (as built)\n\n" + txt
        # demote top-level headings of the fragments to level 3/4
        lines = []
        for l in txt.split("\n"):
            if l.startswith("# "):
                l = "### " + l[2:]
            elif l.startswith("## "):
                l = "#### " + l[3:]
            lines.append(l)
        out.append("\n".join(lines) + "\n--------------------------------------------------------------------------------\n")
if os.path.exists(os.path.join(V, "design/E2E.md")):
    txt = rd("design/E2E.md")
    lines = []
    for l in txt.split("\n"):
        if l.startswith("# "):
            l = "### " + l[2:]
        elif l.startswith("## "):
            l = "#### " + l[3:]
        lines.append(l)
    out.append("\n".join(lines) + "\n")
out.append("---------------------------------------------------------------------------------------\n")
out.append(rd("design/_60_findings.md"))
out.append("---------------------------------------------------------------------------------------\n")
out.append(rd("design/_70_env.md"))
# section 10: measured cost
rows = []
for i in range(1, 21):
    p = os.path.join(V, "evidence", f"C{i:02d}.json")
    if os.path.exists(p):
        e = json.load(open(p)); c = e["coverage"]
        rows.append(f"| C{i:02d} | {e.get('tier')} | {c.get('obligations')}/{c.get('discharged')} | {c.get('evaluations')} | "
                    f"{c.get('distinct_nontrivial')} | {c.get('disagreements')} | {e.get('wall_s')} |")
out.append("## 10. Measured cost of the checks\n\nFrom the evidence files of the last run on this tree (16 cores; the "
           "Coq build is a no-op when nothing changed, `coqc Props/P_Cxx.v` is re-run every time). `thorough` runs the "
           "same pipeline with 5–30× the cases and `coqchk -o` over the property file's closure (≈ 40–120 s).\n\n"
           "| id | tier | theorems checked/closed | cases vs implementation | distinct non-trivial | disagreements | wall s |\n"
           "|---|---|---|---|---|---|---|\n" + "\n".join(rows) + "\n\n"
           "---------------------------------------------------------------------------------------\n")
# section 11: seeds
rows = []
for d in sorted(glob.glob(os.path.join(V, "seeded", "*"))):
    mp = os.path.join(d, "meta.json")
    if not os.path.exists(mp):
        continue
    m = json.load(open(mp))
    what = " ".join(str(m.get("what", "")).split())
    if len(what) > 230:
        what = what[:227] + "…"
    rows.append(f"| `{os.path.basename(d)}` | {m.get('property')} | {what} | {m.get('detected_by')} |")
out.append("## 11. Seeded changes: which checks catch which\n\nEach change was written by a fresh sub-agent that was given only the "
           "property text and a scratch worktree of `/repo` (nothing from `/verif`), with the request for a change that needs "
           "something specific to manifest. Each was confirmed by the integrator in a scratch worktree (`tools/seedtest.sh`: the "
           "demonstration passes on the unchanged tree and fails with the change; the baseline suite is unaffected: 155 passed, "
           "the same 13 environment failures) and is kept under `seeded/<id>/` (patch.diff, demo.py, meta.json). No change was "
           "ever committed to `/repo`. Rows whose id contains `-r2-` … `-r9-` are from the later rounds (each round asked for something the earlier ones had not tried: rare branches, order of operations inside a step, helpers in other files, unusual-but-legal configurations, later episodes). " + str(len(rows) - sum('initially MISSED' in r for r in rows)) + " of the " + str(len(rows)) + " were detected by the checks as they stood when the change arrived; the " + str(sum('initially MISSED' in r for r in rows)) + " marked *initially "
           "MISSED* led to the generator improvements named in the row and are detected now.\n\n"
           "| seeded change | property | what it does | detected by |\n|---|---|---|---|\n" + "\n".join(rows) + "\n\n"
           "---------------------------------------------------------------------------------------\n")
# section 12: behaviour-preserving rewrites
rows = []
for d in sorted(glob.glob(os.path.join(V, "harmless", "*"))):
    mp = os.path.join(d, "meta.json")
    if not os.path.exists(mp):
        continue
    m = json.load(open(mp))
    what = " ".join(str(m.get("what", "")).split())
    if len(what) > 260:
        what = what[:257] + "…"
    rows.append(f"| `{os.path.basename(d)}` | {', '.join(m.get('files', [])) if isinstance(m.get('files'), list) else m.get('files')} | {what} |")
extra = rd("design/_65_harmless.md") if os.path.exists(os.path.join(V, "design/_65_harmless.md")) else ""
out.append("## 12. Behaviour-preserving rewrites: the checks stay quiet\n\n" + extra +
           "\n| rewrite | files | what was restructured |\n|---|---|---|\n" + "\n".join(rows) + "\n\n"
           "---------------------------------------------------------------------------------------\n")
out.append(rd("design/_99_appendix.md"))
open(os.path.join(V, "DESIGN.md"), "w").write("\n".join(out))
print("DESIGN.md:", sum(len(x) for x in out), "bytes")
