#!/bin/bash
# runs every claimed check with several VERIF_SEED values on the unchanged tree; prints only failures
cd /verif
for sd in "$@"; do
  for p in C01 C02 C03 C04 C05 C06 C07 C08 C09 C10 C11 C12 C13 C14 C15 C16 C17 C18 C19 C20; do
    out=$(VERIF_SEED=$sd ./check $p quick 2>&1 | grep -E "VIOLATION|KNOWN|^\[$p\]")
    echo "seed=$sd $out" | tail -1
    echo "$out" | grep -q "VIOLATION" && echo "seed=$sd $p ALARM: $out"
  done
done
git checkout -q -- evidence
