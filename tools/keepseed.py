#!/usr/bin/env python3
"""usage: tools/keepseed.py <seed dir> <id> <detected_by text>   (after confirming with seedtest.sh)"""
import json, os, shutil, sys
sd, sid, detected = sys.argv[1], sys.argv[2], sys.argv[3]
dst = os.path.join("/verif/seeded", sid)
os.makedirs(dst, exist_ok=True)
shutil.copy(os.path.join(sd, "patch.diff"), dst)
shutil.copy(os.path.join(sd, "demo.py"), dst)
meta = json.load(open(os.path.join(sd, "meta.json")))
meta["confirmed_by_integrator"] = ("tools/seedtest.sh: demo exits 0 on the unchanged tree and 1 with the patch; "
                                   "baseline suite with the patch: 1 failed, 155 passed, 12 errors (as unchanged)")
meta["detected_by"] = detected
json.dump(meta, open(os.path.join(dst, "meta.json"), "w"), indent=1)
print("kept", dst)
