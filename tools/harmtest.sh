#!/bin/bash
# usage: tools/harmtest.sh <repo worktree> <harm dir> [<prop> ...]
# A behaviour-preserving rewrite must NOT raise an alarm.  Confirms the rewrite (equiv.py prints the
# same digest without / with the patch; suite tail unchanged), then runs the checks against the
# patched worktree (VERIF_REPO) and reverts.  Without explicit properties: every property whose
# anchored files (properties.jsonl) contain a file the patch touches.
WT="$1"; SD="$2"; shift 2
cd "$WT" || exit 2
git checkout -q -- . 2>/dev/null
D0=$(PYTHONPATH="$WT" PYTHONHASHSEED=0 /venv/bin/python "$SD/equiv.py" 2>&1 | tail -1)
git apply "$SD/patch.diff" || { echo "PATCH DOES NOT APPLY"; exit 2; }
D1=$(PYTHONPATH="$WT" PYTHONHASHSEED=0 /venv/bin/python "$SD/equiv.py" 2>&1 | tail -1)
if [ "$D0" = "$D1" ]; then echo "== equiv digest same: $D0"; else echo "== EQUIV DIGEST DIFFERS: $D0 / $D1"; fi
if [ -z "$NOSUITE" ]; then
  echo "== suite with patch: $(/venv/bin/python -m pytest -q -p no:cacheprovider --timeout=900 --continue-on-collection-errors 2>&1 | tail -1)"
fi
PROPS="$*"
if [ -z "$PROPS" ]; then
  PROPS=$(cd ${VERIF_HOME:-/verif} && VERIF_REPO="$WT" /venv/bin/python - "$SD/patch.diff" <<'EOF'
import re, sys
from harness import anchors
touched = set(re.findall(r"^\+\+\+ b/(\S+)", open(sys.argv[1]).read(), re.M))
print(" ".join(p for p in (f"C{i:02d}" for i in range(1, 21)) if touched & set(anchors.files_of(p))))
EOF
)
fi
echo "== properties: $PROPS"
cd ${VERIF_HOME:-/verif}
for p in $PROPS; do
  VERIF_REPO="$WT" ./check "$p" quick 2>&1 | grep -E "VIOLATION|KNOWN|^\[$p\]" | head -4
done
git -C "$WT" checkout -q -- .
git -C ${VERIF_HOME:-/verif} checkout -q -- evidence 2>/dev/null
