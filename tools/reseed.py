#!/usr/bin/env python3
"""Regression over the kept seeded changes: for every /verif/seeded/<id> apply its patch in a scratch
worktree of /repo, run the checks named in meta.json's detected_by against it (VERIF_REPO), and report
whether each still raises a VIOLATION.   usage: tools/reseed.py [id-substring ...]"""
import glob, json, os, re, subprocess, sys
V = os.environ.get("VERIF_HOME", "/verif")     # a worktree of /verif may run the regression on its own
WT = "/tmp/reseed_wt" + ("" if V == "/verif" else "_" + os.path.basename(V))
INPLACE = "--inplace" in sys.argv[1:]      # apply to /repo itself (git -C /repo apply; check; checkout -- .)
sel = [a for a in sys.argv[1:] if a != "--inplace"]
sh = lambda c, **k: subprocess.run(c, shell=True, stdout=subprocess.PIPE, stderr=subprocess.STDOUT, text=True, **k)
if INPLACE:
    WT = "/repo"
    assert sh("git -C /repo status --porcelain").stdout.strip() == "", "/repo is not clean"
else:
    sh(f"git -C /repo worktree remove --force {WT}; git -C /repo worktree prune; git -C /repo worktree add -q --detach {WT} HEAD")
bad = []
for d in sorted(glob.glob(f"{V}/seeded/*")):
    sid = os.path.basename(d)
    if not os.path.isdir(d):
        continue
    if sel and not any(x in sid for x in sel):
        continue
    m = json.load(open(f"{d}/meta.json"))
    det = m.get("detected_by", "")
    if "initially MISSED" in det and "after" in det:
        det = det[det.index("after"):]
    props = []
    for seg in re.split(r";", det):
        if "not affected" in seg or "do not reach" in seg or "MISSED" in seg:
            continue
        props += re.findall(r"(C\d\d) quick", seg)
    props = sorted(set(props)) or [m["property"]]
    sh(f"git -C {WT} checkout -q -- .")
    r = sh(f"git -C {WT} apply {d}/patch.diff")
    if r.returncode:
        print(f"{sid}: PATCH DOES NOT APPLY ANY MORE: {r.stdout.strip()[:200]}")
        bad.append(sid)
        continue
    for p in props:
        r = sh(f"cd {V} && VERIF_REPO={WT} ./check {p} quick") if not INPLACE else sh(f"cd {V} && ./check {p} quick")
        viol = [l for l in r.stdout.splitlines() if l.startswith("VIOLATION")]
        withinput = [l for l in viol if "no-failing-input-found" not in l]
        status = "DETECTED" if withinput else ("detected(no-input)" if viol else "NOT DETECTED")
        print(f"{sid}: {p}: {status}", flush=True)
        if not viol:
            bad.append(f"{sid}/{p}")
sh(f"git -C {WT} checkout -q -- .")
if not INPLACE:
    sh(f"git -C /repo worktree remove --force {WT}")
sh(f"cd {V} && git checkout -q -- evidence")
print("NOT DETECTED:", bad)
