#!/bin/bash
# usage: tools/seedtest.sh <repo worktree> <seed dir> <prop> [<prop> ...]
# Confirms the seed (suite unchanged, demo passes without / fails with the patch) in the scratch
# worktree, then runs the named checks against the patched worktree (VERIF_REPO) and reverts.
WT="$1"; SD="$2"; shift 2
cd "$WT" || exit 2
git checkout -q -- . 2>/dev/null
echo "== demo on unchanged tree"; PYTHONPATH="$WT" /venv/bin/python "$SD/demo.py" >/dev/null 2>&1; echo "exit $?"
git apply "$SD/patch.diff" || { echo "PATCH DOES NOT APPLY"; exit 2; }
echo "== suite with patch"; /venv/bin/python -m pytest -q -p no:cacheprovider --timeout=900 --continue-on-collection-errors 2>&1 | tail -1
echo "== demo with patch"; PYTHONPATH="$WT" /venv/bin/python "$SD/demo.py" >/dev/null 2>&1; echo "exit $?"
cd ${VERIF_HOME:-/verif}
for p in "$@"; do
  echo "== check $p against patched tree"
  VERIF_REPO="$WT" ./check "$p" quick 2>&1 | grep -E "VIOLATION|KNOWN|^\[$p\]" | head -4
done
git -C "$WT" checkout -q -- .
git -C ${VERIF_HOME:-/verif} checkout -q -- evidence 2>/dev/null
