#!/bin/bash
# usage: tools/reharm.sh [id-substring ...]
# Regression over the stored behaviour-preserving rewrites (harmless/<Cxx-harmN>/): each is applied in a
# scratch worktree of /repo and the checks of every property whose anchored files it touches are run
# against it; a rewrite that raises an alarm is listed.  (VERIF_HOME selects the copy of /verif.)
V=${VERIF_HOME:-/verif}
WT=/tmp/reharm_wt_$(basename $V)
git -C /repo worktree remove --force $WT 2>/dev/null; git -C /repo worktree prune
git -C /repo worktree add -q --detach $WT HEAD || exit 2
bad=""
for d in $V/harmless/*/; do
  id=$(basename $d)
  if [ $# -gt 0 ]; then m=0; for s in "$@"; do case "$id" in *$s*) m=1;; esac; done; [ $m = 1 ] || continue; fi
  out=$(NOSUITE=1 VERIF_HOME=$V $V/tools/harmtest.sh $WT $d 2>&1 | grep -v "^WARNING")
  if echo "$out" | grep -q "VIOLATION\|FAIL\|DIFFERS\|NOT APPLY"; then bad="$bad $id"; echo "$id: ALARM"; echo "$out" | grep "FAIL\|DIFFERS\|NOT APPLY"; else echo "$id: quiet ($(echo "$out" | grep -c ' ok:') checks)"; fi
done
git -C /repo worktree remove --force $WT
echo "ALARMS:$bad"
